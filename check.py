#!/venv/bin/python
"""
check.py <ID> --tier quick|thorough      run the check for one property
check.py --replay FILE                   replay a recorded violation (exit 1 if it reproduces)
check.py --selftest determinism [IDs..]  two fresh interpreters, different hash seeds and worker counts
check.py <ID> --digests N                (internal) print trace digests of the first N runs
check.py <ID> --index I [--trace]        (debug) run one index and print its outcome

Exit codes: 0 property held on everything explored; 1 violation (a line
"VIOLATION property=<id> replay=<path>" is printed); 2 harness error.
"""
import argparse
import json
import os
import sys

HERE = os.path.dirname(os.path.abspath(__file__))


def main():
    if os.environ.get("PYTHONHASHSEED") is None:
        os.environ["PYTHONHASHSEED"] = "0"
        os.execv(sys.executable, [sys.executable] + sys.argv)
    sys.path.insert(0, HERE)
    ap = argparse.ArgumentParser()
    ap.add_argument("prop", nargs="*")
    ap.add_argument("--tier", default=os.environ.get("VERIF_TIER", "quick"))
    ap.add_argument("--replay")
    ap.add_argument("--quiet", action="store_true")
    ap.add_argument("--selftest")
    ap.add_argument("--digests", type=int)
    ap.add_argument("--index", type=int)
    ap.add_argument("--trace", action="store_true")
    ap.add_argument("--runs", type=int)
    ap.add_argument("--budget", type=float)
    ap.add_argument("--n", type=int, default=200)
    args = ap.parse_args()
    seed = int(os.environ.get("VERIF_SEED", "20260101"))

    from dsim import runner

    if args.replay:
        return runner.replay_file(args.replay, quiet=args.quiet)
    if args.selftest:
        ids = args.prop or ALL
        return runner.selftest_determinism(ids, seed, n=args.n)
    if not args.prop:
        ap.error("property id required")
    pid = args.prop[0].upper()
    if args.digests is not None:
        d = runner.digests(pid, seed, args.tier, args.digests)
        print("DIGESTS " + json.dumps(d, sort_keys=True))
        return 0
    if args.index is not None:
        module = runner.load(pid)
        R = runner.descriptor(module, seed, args.index, args.tier)
        out = runner.run_one(module, R, keep_trace=args.trace)
        print(json.dumps(R, indent=1, sort_keys=True, default=str))
        tr = out.pop("trace", [])
        print(json.dumps(out, indent=1, sort_keys=True, default=str))
        if args.trace:
            print("\n".join(tr))
        return 0
    print(f"VERIF_SEED={seed} property={pid} tier={args.tier}")
    return runner.run_check(pid, args.tier, seed, budget_s=args.budget, n_runs=args.runs)


ALL = ["C01", "C02", "C03", "C04", "C05", "C06", "C08", "C11", "C13", "C14", "C15", "C16", "C17", "C19"]

if __name__ == "__main__":
    sys.exit(main())
