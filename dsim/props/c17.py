"""
C17 - a search pickled or interrupted at any point resumes faithfully.

CRASH harness.  The simulated clock is driven so that the search hits its time
limit after exactly k work packets (auto_search(max_expansion_time=...) raises
ExceededMaxtimeError at that packet boundary - the only interrupt the library
has).  At that crash point:

  pickle:  b = pickle.dumps(searcher); restored = pickle.loads(b); restored must
           equal the searcher.  Then TWINS - the original and the restored - are
           run forward through the same remaining client calls with cloned clock
           and random streams; their packet streams, rule insertions,
           has_specification answers and final universes (classes, labels,
           emptiness, rule keys, verified set, queue) must coincide and every
           specification either returns must pass the C01 / C02 validators.
  resume:  the remaining work is split (seeded) into further limited or
           unlimited calls; across all calls the queue monitor's predicates hold
           and the final specification passes the validators.

mode 'sweep' does this for EVERY k = 0, 1, 2, ... until the search finishes
(fault enumeration over crash points, universes up to 60 packets).
"""
import copy
import pickle

from ..core import Violation, pickle_roundtrip
from ..ref import specval
from . import search_common as S
from .. import seams
from ..worlds import words as WW

from comb_spec_searcher.rule_db import RuleDBForest

ID = "C17"
QUICK_RUNS = 2400
CHUNK = 20
THOROUGH_BUDGET_S = 900
WATCHDOG = 120.0
LEVEL = "exploration"
RULE = (
    "one run = (words world, pack, rule DB as in C01) x crash mode: 'pickle' at a sampled packet k with twin continuation, 'resume' "
    "(several time-limit interrupts, restarts and a seeded split of the remaining work), or 'sweep' (every k until the search ends); "
    "non-trivial = at least one crash point with >= 1 packet before it and >= 1 packet after it whose continuation produced a "
    "specification; distinct = distinct digest of (rule DB, start class, crash points, final universe)"
)
REAL_VS_STUB = {
    "real": ["the whole searcher incl. class DB, queue, rule DBs, equivalence DB; pickle"],
    "stub": ["clock, random source, words world"],
}
ASSUMPTIONS = [
    "twin traces are compared on packets, insertions, has_specification answers and final universes; the chosen specification may "
    "legitimately differ where the library iterates a set whose order changes across pickling, so each is validated on its own",
]

K_CHOICES = [0, 1, 1, 2, 2, 3, 4, 5, 6, 8, 10, 13, 17, 22, 30, 45]


def gen(rng, tier):
    R = S.gen_search(rng, tier, flavour=ID)
    R["clock"]["policy"] = "frozen"
    R["clock"]["stall"] = 64
    R["clock"]["skew_p"] = 0.0
    mode = rng.choice(["pickle", "pickle", "resume", "sweep"] if tier == "thorough" else ["pickle", "pickle", "pickle", "resume", "resume", "sweep"])
    R["mode"] = mode
    R["config"]["debug"] = False
    final = {"perc": rng.choice([1, 10, 100]), "smallest": rng.random() < 0.2, "status_update": None, "budgets": [], "tail_budget": rng.choice([None, None, 5])}
    if mode == "pickle":
        R["k"] = rng.choice(K_CHOICES)
        post = []
        for _ in range(rng.choice([0, 0, 1, 2])):
            post.append(rng.choice([["has"], ["level"], ["get", {"smallest": False, "min_time": 0}], ["auto", S.gen_auto(rng, final=False)]]))
        post.append(["auto", final])
        R["ops"] = post
    elif mode == "sweep":
        R["ops"] = [["auto", final]]
        R["max_k"] = 60 if tier == "thorough" else 25
    else:
        ops = []
        for _ in range(rng.choice([1, 2, 3, 4])):
            a = S.gen_auto(rng, final=False)
            a["budgets"] = [rng.choice(K_CHOICES[1:10])]
            a["max_slices"] = 1
            ops.append(["auto", a])
            r = rng.random()
            if r < 0.4:
                ops.append(["restart"])
            elif r < 0.55:
                ops.append(["has"])
            elif r < 0.65:
                ops.append(["level"])
        ops.append(["auto", final])
        R["ops"] = ops
    return R


def _norm(x, depth=0):
    """Order-insensitive, name-agnostic normal form of the searcher's plain state."""
    from collections import Counter, deque

    if depth > 6:
        return repr(type(x))
    if isinstance(x, (set, frozenset)):
        return ("set", sorted((_norm(y, depth + 1) for y in x), key=repr))
    if isinstance(x, Counter):
        return ("counter", sorted(((_norm(k, depth + 1), v) for k, v in x.items()), key=repr))
    if isinstance(x, dict):
        return ("dict", sorted(((_norm(k, depth + 1), _norm(v, depth + 1)) for k, v in x.items()), key=repr))
    if isinstance(x, (list, tuple, deque)):
        return [_norm(y, depth + 1) for y in x]
    if isinstance(x, (int, str, bool, type(None))):
        return x
    if isinstance(x, float):
        return "float"
    return repr(x)


def universe(css):
    cdb = css.classdb
    classes = [(l, repr(cdb.get_class(l)), cdb.label_to_info[l].empty) for l in cdb]
    db = css.ruledb
    if isinstance(db, RuleDBForest):
        tm = db.table_method
        rules = sorted((k.parent, k.children, k.shifts, k.bucket.name) for k in getattr(tm, "_rules", ()))
        rules.append(("function", sorted(tm.function.items(), key=repr)))
    else:
        rules = sorted(iter(db))
    verified = [l for l in cdb if db.is_verified(l)]
    # the queue and the searcher's own bookkeeping: every plain member, whatever it is called
    queue = _norm({k: v for k, v in vars(css.classqueue).items() if not k.endswith("strategies") and k != "expansion_strats"})
    skip = ("ruledb", "classdb", "classqueue", "strategy_pack", "func_times", "func_calls", "func_yield")
    done = _norm({k: v for k, v in vars(css).items() if k not in skip})
    return {"classes": classes, "rules": rules, "verified": verified, "queue": queue, "done": done}


def snapshot(sim):
    return {
        "clock": sim.clock.clone(),
        "rng": sim.rng.clone(),
        "packets": sim.packets,
        "slice_packets": sim.slice_packets,
        "slices": sim.slices,
        "adds": sim.adds,
        "cur_label": sim.cur_label,
        "qmon": copy.deepcopy(sim.qmon),
        "shadow": dict(sim.shadow),
        "shadow_rev": dict(sim.shadow_rev),
        "rec_rules": list(sim.rec_rules),
        "ok_verified": set(sim.ok_verified),
    }


def restore(sim, snap, searcher, inst):
    sim.clock = snap["clock"]
    sim.rng = snap["rng"]
    WW.CURRENT_RNG = sim.rng
    inst.swap(clock=sim.clock, rng=sim.rng)
    for k in ("packets", "slice_packets", "slices", "adds", "cur_label", "qmon", "shadow", "shadow_rev", "rec_rules", "ok_verified"):
        setattr(sim, k, snap[k])
    sim.searcher = searcher
    sim.budgets = []
    sim.tail_budget = None


def crash_and_twins(sim, R, ctx, inst, on_spec, k_label):
    """At a crash point: pickle round trip, equality, twin continuation."""
    css = sim.searcher
    restored = pickle_roundtrip(css, "C17")
    ctx.fault("crash_pickle_restart")
    if not restored == css:
        raise Violation(
            "C17:restored-unequal",
            f"searcher != its pickle round trip at {k_label} (rule db {R['config']['ruledb']}); differing members: "
            f"{[k for k in css.__dict__ if not css.__dict__[k] == restored.__dict__.get(k)]}",
        )
    before = sim.packets
    snap = snapshot(sim)
    # twin A: the original
    sim.trace = []
    sim.specs = []
    res_a = S.exec_ops(sim, R, ctx, on_spec)
    trace_a, uni_a, specs_a, pk_a = sim.trace, universe(sim.searcher), sim.specs, sim.packets
    # twin B: the restored searcher, same clock and random streams
    restore(sim, snap, restored, inst)
    sim.trace = []
    sim.specs = []
    res_b = S.exec_ops(sim, R, ctx, on_spec)
    trace_b, uni_b, specs_b = sim.trace, universe(sim.searcher), sim.specs
    if res_a != res_b:
        raise Violation("C17:twin-results-differ", f"after {k_label}: original ended with {res_a}, restored with {res_b}")
    if trace_a != trace_b:
        i = next((j for j, (x, y) in enumerate(zip(trace_a, trace_b)) if x != y), min(len(trace_a), len(trace_b)))
        raise Violation(
            "C17:twin-traces-differ",
            f"after {k_label}: event #{i} original {trace_a[i] if i < len(trace_a) else None} restored {trace_b[i] if i < len(trace_b) else None}",
        )
    for key in ("classes", "rules", "verified", "queue", "done"):
        if uni_a[key] != uni_b[key]:
            raise Violation("C17:twin-universes-differ", f"after {k_label}: final {key} differ: original {repr(uni_a[key])[:400]} restored {repr(uni_b[key])[:400]}")
    if len(specs_a) != len(specs_b):
        raise Violation("C17:twin-results-differ", f"after {k_label}: {len(specs_a)} vs {len(specs_b)} specifications handed back")
    ctx.stat("twin_pairs")
    ctx.stat("twin_trace_events", len(trace_a))
    return res_a, before, pk_a - before


def interrupt_at(sim, k):
    """Run the search until its time limit strikes after exactly k packets.
    Returns None when interrupted, else 'spec' / 'notfound' / 'capped'."""
    if k == 0:
        return None
    try:
        res = sim.run_auto({"perc": 1, "smallest": False, "status_update": None, "budgets": [k], "tail_budget": None, "max_slices": 1})
    except S.PacketCap:
        return "capped"
    if res is None:
        return None
    return "notfound" if res == "notfound" else "spec"


def execute(R, ctx):
    mode = R["mode"]
    if mode == "resume":
        S.execute_search(R, ctx, focus="C17")
        ctx.nontrivial = ctx.nontrivial and ctx.faults.get("time_limit_interrupt", 0) >= 1
        return
    ks = [R["k"]] if mode == "pickle" else list(range(R.get("max_k", 25) + 1))
    crash_points = []
    nontrivial = False
    last_uni = None
    for k in ks:
        sim = S.Sim(R, ctx, "C17")
        start = sim.world_class
        counter = [R["order_seed"]]

        def on_spec(spec, how, sim=sim, start=start, counter=counter):
            sim.specs.append(spec)
            counter[0] += 1
            specval.check_structure(spec, start, sim.allowed, ctx, tag="C02")
            specval.check_counts(spec, start, R["nmax"], counter[0], ctx, tag="C01")

        with S.install(sim) as inst:
            try:
                sim.build()
                pre = interrupt_at(sim, k)
            except S.PacketCap:
                pre = "capped"
            if pre is not None:
                # the search finished (or was capped) before packet k: no crash point here
                ctx.probe("search_ended_before_k")
                ctx.sim_seconds += sim.clock.elapsed()
                break
            if sim.packets != k:
                ctx.probe("interrupt_not_at_k")
            res, before, after = crash_and_twins(sim, R, ctx, inst, on_spec, f"packet {sim.packets}")
            crash_points.append(sim.packets)
            ctx.probe("crash_point")
            ctx.probe("db_" + R["config"]["ruledb"])
            if any(getattr(sim.searcher.classqueue, "curr_level", ())):
                ctx.probe("restart_mid_level")
            if before >= 1 and after >= 1 and res == "spec":
                nontrivial = True
            last_uni = (res, len(sim.searcher.classdb.label_to_info))
            ctx.sim_seconds += sim.clock.elapsed()
    if mode == "sweep" and crash_points:
        ctx.probe("sweep_completed")
        ctx.stat("sweep_crash_points", len(crash_points))
    ctx.nontrivial = nontrivial
    ctx.set_interleaving((mode, tuple(crash_points)))
    ctx.set_state((R["config"]["ruledb"], repr(R["world"]), tuple(crash_points), last_uni))


def simplify(R):
    if R["mode"] == "sweep":
        yield dict(R, mode="pickle", k=0)
        for k in (1, 2, 3, 5, 8, 13, 20):
            yield dict(R, mode="pickle", k=k)
    if R["mode"] == "pickle" and R["k"] > 0:
        yield dict(R, k=R["k"] - 1)
        yield dict(R, k=R["k"] // 2)
    yield from S.simplify_search(R)


def evidence_extra(outs):
    sweeps = sum(o.get("probes", {}).get("sweep_completed", 0) for o in outs)
    pts = sum(o.get("stats", {}).get("sweep_crash_points", 0) for o in outs)
    return {
        "crash_point_sweeps_completed": sweeps,
        "crash_points_enumerated_in_sweeps": pts,
        "crash_points_total": sum(o.get("probes", {}).get("crash_point", 0) for o in outs),
        "sweep_note": "a completed sweep has pickled and twin-continued the search at EVERY packet boundary k = 0, 1, ... until the search ended (exhaustive over the crash points of that one search; the choice of searches is sampled)",
    }
