"""
C04 - the rule universe built by the searcher is faithful to the strategies.

Simulated searches with a recording rule DB (a subclass of each of the three
flavours: super-call, then the event).  At every add(start, ends, rule), for the
whole run: the parent label carries the rule's class, the child labels are the
labels of the rule's children in order, labels are a bijection (shadow map kept
from the world's own equality), the rule is what that pack strategy produces on
that class when re-applied freshly and the strategy applies; afterwards the
stored key drops exactly the truly empty children of possibly-empty rules
(default / forget DB) or every truly empty child has an empty rule (forest DB).
"""
from . import search_common as S

ID = "C04"
QUICK_RUNS = 6000
CHUNK = 20
THOROUGH_BUDGET_S = 900
WATCHDOG = 45.0
LEVEL = "exploration"
RULE = (
    "one run = (words world: alphabet 2-3, <=4 patterns of length <=4, prefix <=2, 0-2 tracked statistics) x (pack: masks, lazy/eager "
    "does-not-apply, inferral/initial equivalence strategies, factories with foreign parents and duplicates, fiat verification, symmetry, "
    "iterative) x (rule DB) x (clock policy, slice budgets, interrupts, restarts, client call sequence) x (random-source policy); "
    "non-trivial = a specification with >= 3 rules was handed back and either a fault fired or the run is a designated fault-free run; "
    "distinct = distinct digest of (rule DB, start class, final class universe, result, classes of the returned specifications)"
)
REAL_VS_STUB = {
    "real": ["the whole comb_spec_searcher package on the search/extract/count path", "pickle", "zlib", "sympy (Quotient)", "psutil/pympler when status is requested"],
    "stub": ["clock (SimClock at the module-level `time` seams)", "random source (SimRandom at the imported names)", "classes, objects, strategies, packs: the words world (dsim/worlds/words.py)"],
}
ASSUMPTIONS = [
    "ground truth is brute-force enumeration of alphabet^n (n <= 6)",
    "the words world honours the strategy contracts; every rule it produces is checked to be a bijection by an independent self-check",
]


def gen(rng, tier):
    return S.gen_search(rng, tier, flavour=ID)


def execute(R, ctx):
    return S.execute_search(R, ctx, focus=ID)


simplify = S.simplify_search
