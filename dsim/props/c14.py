"""
C14 - default and memory-saving rule databases are observationally identical.

LOCKSTEP harness: one simulated search (words world; verification strategies
that also verify classes other strategies can expand, factories, foreign
parents) whose recording rule DB - a subclass of one of the two flavours, seeded
which, so that either can be the one steering the search - mirrors every
add(start, ends, rule), in order, into a fresh RuleDB and a fresh
RuleDBForgetStrategy linked to the same searcher (from inside link_searcher, so
the insertions the searcher's constructor performs are mirrored too).

After every single insertion (each DB is the other's reference): equal
is_verified for every label, equal set of stored rules, equal contains() for
every stored key and for seeded non-stored keys; has_specification() is
compared at the query points of the run's policy (every insertion / a seeded
subset / only at the end), because that call has side effects.  At the end, for
every stored key the strategy each DB hands back, re-applied to the parent,
must reproduce the key.
"""
import random

from ..core import Violation
from . import search_common as S
from ..worlds import words as WW

from comb_spec_searcher.rule_db import RuleDB, RuleDBForgetStrategy

ID = "C14"
QUICK_RUNS = 5000
CHUNK = 20
THOROUGH_BUDGET_S = 900
WATCHDOG = 45.0
LEVEL = "exploration"
RULE = (
    "simulated searches as in C01 restricted to the default/forget flavours as the steering DB; both mirrors compared after every "
    "insertion; non-trivial = >= 10 insertions mirrored, at least one two-way equivalence and one verified non-atom class or "
    "dropped empty child; distinct = distinct digest of (steering DB, start class, final universe, result)"
)
REAL_VS_STUB = {
    "real": ["rule_db.base.RuleDB", "rule_db.forget.RuleDBForgetStrategy / RecomputingDict", "the whole searcher producing the insertion stream"],
    "stub": ["clock, random source, words world"],
}
ASSUMPTIONS = ["contains(start, ends) is compared for ends in any order (the method sorts them)"]


def gen(rng, tier):
    R = S.gen_search(rng, tier, ruledb=rng.choice(["default", "forget"]), flavour=ID)
    # verification strategies that also verify classes other strategies can expand
    if rng.random() < 0.6 and not any(v["t"] == "FiatVerified" for v in R["pack"]["ver"]):
        R["pack"]["ver"].append({"t": "FiatVerified", "salt": rng.randrange(1000), "pct": rng.choice([10, 25, 50]), "ignore_parent": rng.random() < 0.3})
    R["pack"]["iterative"] = R["pack"]["iterative"] and rng.random() < 0.5
    if rng.random() < 0.35:
        # a (parent, child) key that arrives first as a one-way and then as a two-way rule (or the other
        # way round): the default DB replaces the stored rule, the forget DB has to do the same
        w = R["world"]
        if w["patterns"]:
            base = rng.choice(w["patterns"])
            w["patterns"].append(list(base) + [rng.choice(w["alphabet"])])
        first = rng.random() < 0.5
        R["pack"]["initial"] = [x for x in R["pack"]["initial"] if x["t"] != "ReducePatterns"] + [
            {"t": "ReducePatterns", "two_way": first, "ignore_parent": False},
            {"t": "ReducePatterns", "two_way": not first, "ignore_parent": False},
        ]
        R["pack"]["inferral"] = [x for x in R["pack"]["inferral"] if x["t"] != "ReducePatterns"]
    elif rng.random() < 0.25 and not R["world"]["tracked"] and not R["config"]["debug"]:
        # opposite directions: A -> A' by a one-way rule (track a letter that never occurs), later
        # A' -> A by a two-way rule (drop the dead statistic): the stored one-way rule has to go
        R["pack"]["initial"] = [x for x in R["pack"]["initial"] if x["t"] not in ("TrackLetter", "DropDeadStatistic")] + [
            {"t": "TrackLetter", "letter": 3, "two_way": False, "ignore_parent": False},
        ]
        R["pack"]["inferral"] = [x for x in R["pack"]["inferral"] if x["t"] not in ("TrackLetter", "DropDeadStatistic")] + [
            {"t": "DropDeadStatistic", "two_way": True},
        ]
        R["pack"]["ver"] = [v if v["t"] != "AtomStrategy" else {"t": "WordAtom"} for v in R["pack"]["ver"]]
    R["query_policy"] = rng.choice(["every", "subset", "end"])
    R["query_seed"] = rng.randrange(1 << 30)
    return R


class Mirrors:
    def __init__(self, sim, R, ctx):
        self.sim = sim
        self.ctx = ctx
        self.a = RuleDB()
        self.b = RuleDBForgetStrategy()
        self.linked = False
        self.n = 0
        self.policy = R.get("query_policy", "every")
        self.rng = random.Random(R.get("query_seed", 0))
        self.searcher = None
        self.two_way = 0
        self.has_agreed = 0

    def link(self, searcher):
        if not self.linked:
            self.a.link_searcher(searcher)
            self.b.link_searcher(searcher)
            self.searcher = searcher
            self.linked = True

    def objects(self):
        """Pickled together with the searcher at a restart, so that the mirrors keep
        pointing at the restored searcher."""
        return (self.a, self.b)

    def restored(self, searcher, objs):
        self.a, self.b = objs
        self.searcher = searcher

    def feed(self, start, ends, rule):
        if not self.linked:
            raise Violation("harness-mirror-unlinked", "insertion before link_searcher")
        self.a.add(start, ends, rule)
        self.b.add(start, ends, rule)
        self.n += 1
        if len(ends) == 1 and rule.is_two_way():
            self.two_way += 1
        # the comparison is linear in the universe: after the first 150 insertions of a
        # (rare) huge universe it is made at every 8th insertion only
        if self.n <= 150 or self.n % 8 == 0:
            self.compare(f"insertion #{self.n} add({start}, {ends}, {rule.strategy!r})")
        if self.n <= 120:
            q = self.policy == "every" or (self.policy == "subset" and self.rng.random() < 0.3)
        else:
            q = self.policy != "end" and self.rng.random() < 0.04
        if q:
            self.compare_has(f"after insertion #{self.n}")

    def compare_has(self, where):
        ha, hb = self.a.has_specification(), self.b.has_specification()
        self.ctx.ev("mirror-has", ha, hb)
        if ha != hb:
            raise Violation("C14:has-specification-differs", f"{where}: RuleDB says {ha}, RuleDBForgetStrategy says {hb}")
        self.has_agreed += 1
        self.compare(where + " (after has_specification)")

    def compare(self, where):
        classdb = self.searcher.classdb
        la, lb = sorted(iter(self.a)), sorted(iter(self.b))
        ka, kb = set(la), set(lb)
        if ka != kb:
            raise Violation("C14:stored-rules-differ", f"{where}: only in RuleDB {sorted(ka - kb)[:4]}, only in forget {sorted(kb - ka)[:4]}")
        if la != lb:
            # iterating the database is observable too: a key stored once by one flavour and twice
            # (in both of its stores) by the other is a difference
            dup = [k for k in ka if la.count(k) != lb.count(k)][:4]
            raise Violation("C14:stored-rules-differ", f"{where}: iteration yields {dup} a different number of times (RuleDB {[la.count(k) for k in dup]}, forget {[lb.count(k) for k in dup]})")
        for l in classdb:
            va, vb = self.a.is_verified(l), self.b.is_verified(l)
            if va != vb:
                raise Violation("C14:verified-differs", f"{where}: label {l}: RuleDB {va}, forget {vb}")
        # membership: every stored key (children permuted) and a few non-stored keys
        keys = sorted(ka)
        probe = keys if len(keys) <= 12 else [keys[self.rng.randrange(len(keys))] for _ in range(12)]
        n = len(classdb.label_to_info)
        for start, ends in probe:
            perm = list(ends)
            self.rng.shuffle(perm)
            for db, name in ((self.a, "RuleDB"), (self.b, "RuleDBForgetStrategy")):
                got = db.contains(start, tuple(perm))
                if got is not True:
                    raise Violation("C14:contains-misses-stored-key", f"{where}: {name}.contains({start}, {tuple(perm)}) = {got!r} for a stored rule")
        for _ in range(4):
            start = self.rng.randrange(n + 2)
            ends = tuple(self.rng.randrange(n + 2) for _ in range(self.rng.randrange(0, 4)))
            want = (start, tuple(sorted(ends))) in ka
            ga, gb = self.a.contains(start, ends), self.b.contains(start, ends)
            if ga != gb or ga != want:
                raise Violation("C14:contains-differs", f"{where}: contains({start}, {ends}): RuleDB {ga!r}, forget {gb!r}, stored: {want}")

    def finish(self):
        if not self.linked:
            return
        self.compare_has("end of run")
        classdb = self.searcher.classdb
        for db, name in ((self.a, "RuleDB"), (self.b, "RuleDBForgetStrategy")):
            for store, eqv in ((db.rule_to_strategy, False), (db.eqv_rule_to_strategy, True)):
                for key in sorted(store):
                    start, ends = key
                    parent = classdb.get_class(start)
                    if WW.truth_empty(parent):
                        continue
                    try:
                        strat = store[key]
                    except RuntimeError as e:
                        raise Violation("C14:strategy-not-recomputable", f"{name}: no strategy for stored key {key}: {str(e)[:200]}") from e
                    rule = strat(parent)
                    kids = tuple(sorted(classdb.get_label(c) for c in rule.children if not (rule.possibly_empty and WW.truth_empty(c))))
                    if kids != tuple(ends):
                        raise Violation("C14:strategy-does-not-reproduce-rule", f"{name}: stored key {key}, strategy {strat!r} re-applied to {parent} gives children {kids}")
                    if eqv and not rule.is_two_way():
                        raise Violation("C14:equivalence-strategy-not-two-way", f"{name}: {key} {strat!r}")
        self.ctx.stat("mirrored_insertions", self.n)
        self.ctx.stat("has_comparisons", self.has_agreed)
        if self.two_way:
            self.ctx.probe("two_way_rule_mirrored")


def execute(R, ctx):
    S.execute_search(R, ctx, focus=ID)
    ctx.nontrivial = ctx.stats.get("mirrored_insertions", 0) >= 10 and ctx.probes.get("two_way_rule_mirrored", 0) > 0


simplify = S.simplify_search
