"""
C05 - pruning-based detection and proof-tree search are exact.

PRUNE machine, two layers.

layer 'trees': the functions of tree_searcher on seeded integer rule dictionaries
  (<= 10 labels): prune, iterative_prune, random_proof_tree,
  smallish_random_proof_tree (the simulated clock decides the number of
  minimisation rounds), proof_tree_generator_dfs with and without a bound,
  proof_tree_generator_bfs, iterative_proof_tree_finder - with the random source
  under every policy.

layer 'ruledb': a real RuleDB / RuleDBForgetStrategy, linked to a stub searcher,
  receives a seeded history of insertions (two-way unary, one-way unary, n-ary,
  verification; duplicates) interleaved with has_specification, is_verified and
  _get_specification_node(smallest=...), in recursive and iterative packs, with
  the start label frequently not its own equivalence representative.  Queries are
  placed between arbitrary pairs of insertions, which is what exposes a stale
  cached pruned dictionary.

References: greatest-fixed-point pruning / bottom-up closure of the recorded
rules collapsed by strongly connected components, an independent tree validator,
brute-force minimum tree size (dsim/ref/trees.py, dsim/ref/graph.py).
"""

from ..clock import SimClock
from ..core import Violation
from ..ref import trees as T
from ..ref.graph import scc_partition
from ..rng import SimRandom
from .. import seams

from comb_spec_searcher import tree_searcher as TS
from comb_spec_searcher.exception import SpecificationNotFound
from comb_spec_searcher.rule_db import RuleDB, RuleDBForgetStrategy
from comb_spec_searcher.strategies.rule import VerificationRule

ID = "C05"
QUICK_RUNS = 40000
CHUNK = 150
WATCHDOG = 45.0
THOROUGH_BUDGET_S = 600
LEVEL = "exploration"
RULE = (
    "layer 'trees': rule dictionaries over <=10 labels, <=3 rules per label, arity 0-3, finders under seeded/first/last random "
    "policies and a simulated clock; layer 'ruledb': histories of <=40 insertions over <=10 labels into a real default or forget "
    "rule DB with queries between arbitrary insertions, recursive and iterative; non-trivial = the universe contains a "
    "specification for the root with >= 2 distinct labels and at least one label is pruned away or a query happened before the "
    "last insertion; distinct = distinct (layer, rules, op history)"
)
REAL_VS_STUB = {
    "real": ["tree_searcher (all finders)", "rule_db.base.RuleDBBase / RuleDB / RuleDBForgetStrategy store+prune+node search", "equiv_db.EquivalenceDB"],
    "stub": ["searcher stub (start label, pack.iterative, class emptiness)", "rules are duck-typed objects (children, two-way flag, verification flag)", "clock and random source"],
}
ASSUMPTIONS = ["trees over equivalence representatives are compared through the reference SCC partition"]


def gen_rules(rng, n, max_rules=3, p_leaf=0.25):
    rules = {}
    for k in range(n):
        rs = set()
        for _ in range(rng.randint(0, max_rules)):
            if rng.random() < p_leaf:
                rs.add(())
            else:
                rs.add(tuple(sorted(rng.randrange(n) for _ in range(rng.randint(1, 3)))))
        if rs:
            rules[k] = sorted(rs)
    return rules


SEARCH_FRACTION = 0.06


def gen(rng, tier):
    if rng.random() < SEARCH_FRACTION:
        from . import search_common as S

        R = S.gen_search(rng, tier, ruledb=rng.choice(["default", "forget"]), flavour="C05")
        R["layer"] = "search"
        if rng.random() < 0.4:
            R["pack"]["iterative"] = True
        return R
    big = tier == "thorough"
    clock = {"policy": rng.choice(["frozen", "jitter"]), "seed": rng.randrange(1 << 30), "stall": rng.choice([0, 1, 8, 64]), "skew_p": rng.choice([0.0, 0.05])}
    rg = {"policy": rng.choice(["seeded", "seeded", "first", "last"]), "seed": rng.randrange(1 << 30)}
    if rng.random() < 0.45:
        n = rng.randint(1, 10)
        rules = gen_rules(rng, n, p_leaf=rng.choice([0.1, 0.25, 0.5]))
        return {
            "layer": "trees",
            "n": n,
            "rules": [[k, [list(r) for r in rs]] for k, rs in sorted(rules.items())],
            "root": rng.randrange(n),
            "min_time": rng.choice([0, 0.001, 0.05, 10]),
            "clock": clock,
            "rng": rg,
        }
    n = rng.randint(2, 10)
    n_ops = rng.randint(3, 80 if big else 40)
    ops = []
    qw = rng.choice([0.15, 0.35, 0.6])
    for _ in range(n_ops):
        r = rng.random()
        if r < qw:
            q = rng.choice(["has", "has", "ver", "node", "node_smallest"])
            ops.append([q, rng.randrange(n)] if q == "ver" else [q])
            continue
        k = rng.choice(["two", "one", "nary", "nary", "nary", "verif"])
        a = rng.randrange(n)
        if k in ("two", "one"):
            ops.append([k, a, rng.randrange(n)])
        elif k == "verif":
            ops.append([k, a])
        else:
            ops.append([k, a, sorted(rng.randrange(n) for _ in range(rng.randint(2, 3)))])
        if rng.random() < 0.1:
            ops.append(list(ops[-1]))  # duplicate delivery
    ops.append(["has"])
    ops.append(["node"])
    ops.append(["node_smallest"])
    return {
        "layer": "ruledb",
        "n": n,
        "db": rng.choice(["default", "forget"]),
        "iterative": rng.random() < 0.35,
        "root": rng.randrange(n) if rng.random() < 0.5 else 0,
        "ops": ops,
        "min_time": rng.choice([0, 0.001, 0.05, 10]),
        "clock": clock,
        "rng": rg,
    }


# ---------------------------------------------------------------------------
# layer 'trees'
# ---------------------------------------------------------------------------


def _as_dict(rules):
    return {k: {tuple(r) for r in rs} for k, rs in rules}


def exec_trees(R, ctx):
    rules = _as_dict(R["rules"])
    root = R["root"]
    ref = T.gfp_prune(rules)
    got = {k: set(v) for k, v in rules.items()}
    TS.prune(got)
    ctx.ev("prune", sorted((k, sorted(v)) for k, v in got.items()))
    if {k: set(v) for k, v in got.items()} != ref:
        raise Violation("prune-not-gfp", f"prune gives {sorted(got)} reference {sorted(ref)} for rules {R['rules']}")
    # iterative prune
    iref = T.iterative_derivable(rules, root)
    igot = TS.iterative_prune({k: set(v) for k, v in rules.items()}, root=root)
    igot = {k: set(v) for k, v in igot.items() if v}
    if igot != iref:
        raise Violation("iterative-prune-wrong", f"iterative_prune(root={root}) gives {sorted(igot.items())} reference {sorted(iref.items())}")
    has = root in ref
    ctx.nontrivial = has and len(ref) >= 2 and len(ref) < len(rules)
    if root in iref:
        ctx.probe("iterative_spec_exists")
        node = TS.iterative_proof_tree_finder({k: set(v) for k, v in igot.items()}, root=root)
        _valid(node, iref, root, "iterative_proof_tree_finder", iterative=True)
    if not has:
        for name, f in (
            ("dfs", lambda: list(TS.proof_tree_generator_dfs(got, root))),
            ("bfs", lambda: list(TS.proof_tree_generator_bfs(got, root)) if len(got) <= 4 else []),
        ):
            res = f()
            if res:
                raise Violation("tree-for-pruned-root", f"{name} generator yields a tree although the root does not survive pruning")
        ctx.set_state(("trees", R["rules"], root))
        return
    ctx.probe("spec_exists")
    minimum = T.min_tree_size(ref, root)
    for _ in range(3):
        node = TS.random_proof_tree(got, root)
        _valid(node, ref, root, "random_proof_tree")
    node = TS.smallish_random_proof_tree(got, root, R["min_time"])
    _valid(node, ref, root, "smallish_random_proof_tree")
    ctx.ev("smallish", T.tree_size(node))
    # bounded dfs: the smallest accepted bound is the minimum size
    gen_ = TS.proof_tree_generator_dfs(got, root)
    for i, node in enumerate(gen_):
        _valid(node, ref, root, "proof_tree_generator_dfs")
        if T.tree_size(node) < minimum:
            raise Violation("tree-below-minimum", f"dfs generator yields a tree of size {T.tree_size(node)} < brute-force minimum {minimum}")
        if i >= 20:
            break
    # the breadth-first generator materialises the product of all sub-tree iterators
    # (exponential): only universes with few surviving labels are given to it
    if len(ref) <= 4 and sum(len(v) for v in ref.values()) <= 7:
        ctx.probe("bfs_generator_run")
        for i, node in enumerate(TS.proof_tree_generator_bfs(got, root)):
            _valid(node, ref, root, "proof_tree_generator_bfs")
            if i >= 20:
                break
    for m in (minimum - 1, minimum, minimum + 1):
        if m < 1:
            continue
        first = next(TS.proof_tree_generator_dfs(got, root, maximum=m), None)
        if m < minimum and first is not None:
            raise Violation("bounded-dfs-too-small", f"maximum={m} yields a tree of size {T.tree_size(first)} but the minimum is {minimum}")
        if m >= minimum:
            if first is None:
                raise Violation("bounded-dfs-misses-minimum", f"maximum={m} yields nothing although a tree of size {minimum} exists; rules {sorted((k, sorted(v)) for k, v in ref.items())} root {root}")
            _valid(first, ref, root, "proof_tree_generator_dfs(maximum)")
            if T.tree_size(first) > m:
                raise Violation("bounded-dfs-exceeds-bound", f"maximum={m} yields a tree of size {T.tree_size(first)}")
    ctx.stat("min_tree_size", minimum)
    ctx.set_state(("trees", R["rules"], root))


def _valid(node, ref, root, who, iterative=False, cls=lambda x: x):
    try:
        T.validate_tree(node, ref, root, iterative=iterative, cls=cls)
    except T.BadTree as e:
        raise Violation("invalid-tree", f"{who}: {e}; tree {node}") from e


# ---------------------------------------------------------------------------
# layer 'ruledb'
# ---------------------------------------------------------------------------


class _Strat:
    def __init__(self, name):
        self.name = name

    def __repr__(self):
        return self.name


class _FRule:
    possibly_empty = False

    def __init__(self, children, two_way):
        self.children = tuple(children)
        self._two = two_way
        self.strategy = _Strat("s")

    def is_two_way(self):
        return self._two


class _FVer(VerificationRule):
    possibly_empty = False

    def __init__(self):  # pylint: disable=super-init-not-called
        self._children = ()
        self._strategy = _Strat("v")

    @property
    def strategy(self):
        return self._strategy

    def is_two_way(self):
        return False


class _Queue:
    def set_stop_yielding(self, label):
        pass


class _Pack:
    def __init__(self, iterative):
        self.iterative = iterative

    def __iter__(self):
        return iter(())


class _ClassDB:
    @staticmethod
    def is_empty(*_a):
        return False

    @staticmethod
    def get_class(l):
        return l


class _Searcher:
    def __init__(self, root, iterative):
        self.start_label = root
        self.strategy_pack = _Pack(iterative)
        self.classdb = _ClassDB()
        self.classqueue = _Queue()


def exec_ruledb(R, ctx):
    db = RuleDB() if R["db"] == "default" else RuleDBForgetStrategy()
    db.link_searcher(_Searcher(R["root"], R["iterative"]))
    root = R["root"]
    iterative = R["iterative"]
    n = R["n"]
    edges = set()
    stored = []  # (start, sorted ends)
    verified_marks = set()
    early_query = False
    pair_kind = {}
    n_ins = 0
    total_ins = sum(1 for op in R["ops"] if op[0] in ("two", "one", "nary", "verif"))

    def reference():
        part = scc_partition(range(n), edges)
        cls = lambda l: min(part[l])  # noqa: E731
        rules = {}
        for s, ends in stored:
            if len(ends) == 1 and cls(s) == cls(ends[0]):
                continue
            rules.setdefault(cls(s), set()).add(tuple(sorted(cls(e) for e in ends)))
        if iterative:
            pr = T.iterative_derivable(rules, cls(root))
        else:
            pr = T.gfp_prune(rules)
        return cls, rules, pr

    for op in R["ops"]:
        k = op[0]
        if k in ("two", "one"):
            a, b = op[1], op[2]
            if a == b:
                continue  # the searcher filters self-equivalences before the rule DB
            if R["db"] == "forget":
                # the stub pack cannot recompute strategies, which the forget DB does when a
                # two-way rule replaces a stored one-way rule of the same pair: keep one kind per pair
                k = pair_kind.setdefault(frozenset((a, b)), k)
            db.add(a, (b,), _FRule((b,), k == "two"))
            edges.add((a, b))
            if k == "two":
                edges.add((b, a))
            stored.append((a, (b,)))
            n_ins += 1
            ctx.ev(k, a, b)
        elif k == "nary":
            a, ends = op[1], tuple(op[2])
            db.add(a, ends, _FRule(ends, False))
            stored.append((a, tuple(sorted(ends))))
            n_ins += 1
            ctx.ev(k, a, ends)
        elif k == "verif":
            db.add(op[1], (), _FVer())
            stored.append((op[1], ()))
            verified_marks.add(op[1])
            n_ins += 1
            ctx.ev(k, op[1])
        elif k == "has":
            cls, rules, pr = reference()
            want = cls(root) in pr
            got = db.has_specification()
            ctx.ev("has", got)
            if n_ins < total_ins:
                early_query = True
            if db.equivdb[root] != root:
                ctx.probe("root_not_own_representative")
            if got != want:
                raise Violation(
                    "has-specification-wrong",
                    f"has_specification()={got}, reference says {want} (iterative={iterative}, root={root}, "
                    f"representative={db.equivdb[root]}); rules up to equivalence {sorted((k2, sorted(v)) for k2, v in rules.items())}",
                )
        elif k == "ver":
            cls, rules, pr = reference()
            l = op[1]
            got = db.is_verified(l)
            ctx.ev("ver", l, got)
            part_marked = any(cls(m) == cls(l) for m in verified_marks)
            # (iterative packs mark everything derivable *given the start class*; when such a label
            # later merges with the start class the mark says nothing checkable, so only recursive
            # packs are judged here)
            if got and not iterative and not (cls(l) in pr or part_marked):
                raise Violation("verified-unsound", f"is_verified({l}) but its class neither has a verification rule nor survives pruning of the rules so far")
            if l in verified_marks and not got:
                raise Violation("verified-lost", f"label {l} has a verification rule but is_verified is False")
        elif k in ("node", "node_smallest"):
            cls, rules, pr = reference()
            want = cls(root) in pr
            smallest = k == "node_smallest"
            if smallest and iterative:
                continue  # documented InvalidOperationError
            try:
                node = db._get_specification_node(R["min_time"], smallest)  # pylint: disable=protected-access
            except SpecificationNotFound:
                ctx.ev(k, "notfound")
                if want:
                    raise Violation("has-specification-wrong", f"_get_specification_node raised SpecificationNotFound but the reference finds a specification (iterative={iterative}, root={root}, representative={db.equivdb[root]})")
                continue
            ctx.ev(k, T.tree_size(node))
            if not want:
                raise Violation("tree-for-pruned-root", f"a tree was returned although the root does not survive the reference pruning")
            _valid(node, pr, cls(root), k, iterative=iterative, cls=cls)
            if smallest:
                minimum = T.min_tree_size(pr, cls(root))
                if T.tree_size(node) != minimum:
                    raise Violation("smallest-not-minimal", f"smallest tree has {T.tree_size(node)} nodes, brute-force minimum is {minimum}; rules {sorted((k2, sorted(v)) for k2, v in pr.items())} root {cls(root)}")
                ctx.probe("smallest_checked")
            if n_ins < total_ins:
                early_query = True
        else:
            raise ValueError(k)
    cls, rules, pr = reference()
    ctx.set_state(("ruledb", R["db"], iterative, root, R["ops"]))
    ctx.nontrivial = cls(root) in pr and len(pr) >= 2 and (len(pr) < len(rules) or early_query)
    if any(len(set(range(n)) & {m for m in range(n) if cls(m) == cls(l)}) > 1 for l in range(n)):
        ctx.probe("nontrivial_equivalence_class")


def execute(R, ctx):
    if R.get("layer") == "search":
        from . import search_common as S

        return S.execute_search(R, ctx, focus="C05")
    clock = SimClock(**R["clock"])
    rng = SimRandom(R["rng"]["policy"], R["rng"]["seed"])
    with seams.Installed(clock, rng):
        if R["layer"] == "trees":
            exec_trees(R, ctx)
        else:
            exec_ruledb(R, ctx)
    ctx.sim_seconds = clock.elapsed()
    ctx.probe("layer_" + R["layer"])
    if clock.escalations:
        ctx.fault("clock_stall_escalation")
    if clock.skews:
        ctx.fault("clock_backward_step", clock.skews)
    if clock.policy == "jitter":
        ctx.fault("clock_jitter")
    ctx.fault("rng_" + R["rng"]["policy"])


def simplify(R):
    if R["layer"] == "search":
        from . import search_common as S

        yield from S.simplify_search(R)
        return
    if R["layer"] == "trees":
        rules = R["rules"]
        for i, (k, rs) in enumerate(rules):
            for j in range(len(rs)):
                nr = rules[:i] + ([[k, rs[:j] + rs[j + 1 :]]] if len(rs) > 1 else []) + rules[i + 1 :]
                yield dict(R, rules=nr)
    if R["clock"]["policy"] != "frozen":
        yield dict(R, clock=dict(R["clock"], policy="frozen", skew_p=0.0))
    if R["rng"]["policy"] != "first":
        yield dict(R, rng=dict(R["rng"], policy="first"))
    if R["layer"] == "ruledb" and R["db"] != "default":
        yield dict(R, db="default")
