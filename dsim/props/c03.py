"""
C03 - forest productivity detection equals the least fixed point, in any order.

TABLE machine: a real TableMethod (and a real RuleDBForest fed the same stream
through duck-typed rules, so that is_verified / has_specification are covered)
receives a seeded multiset of ForestRuleKeys in a seeded order with duplicates
and bursts; queries are interleaved.  After every insertion the reported
function must equal the capped Kleene least fixed point of the rules delivered
so far; values never decrease; at the end the same multiset in other orders
gives the same function.
"""

from ..core import HarnessError, Violation
from ..ref import lfp as L
from .. import seams  # noqa: F401

from comb_spec_searcher.rule_db.forest import RuleDBForest, TableMethod
from comb_spec_searcher.typing import ForestRuleKey, RuleBucket

ID = "C03"
QUICK_RUNS = 40000
CHUNK = 200
THOROUGH_BUDGET_S = 600
LEVEL = "exploration"
RULE = (
    "multisets of 1-25 (thorough 1-40) rule keys over <=12 (thorough <=14) labels, arity 0-4, repeated and "
    "self children, shifts per-run in one of the ranges [0,1] [0,3] [-1,1] [-3,3] [-6,6], all buckets, delivered in a seeded "
    "order with duplicates and bursts and checked against the reference LFP after every insertion; "
    "non-trivial = some class has a finite positive value or becomes infinite only after a later "
    "insertion, and >= 3 distinct rules; distinct = distinct (rule multiset, delivery order)"
)
REAL_VS_STUB = {
    "real": ["rule_db.forest.TableMethod", "rule_db.forest.Function", "rule_db.forest.RuleDBForest.add/is_verified/has_specification"],
    "stub": ["rules are duck-typed objects carrying only a forest key", "searcher stub providing root label and identity labelling"],
}
ASSUMPTIONS = [
    "reference: capped Kleene iteration (dsim/ref/lfp.py), cap K=(N+2)G+2 cross-checked against 2K on every run",
]
BUCKETS = ["VERIFICATION", "EQUIV", "NORMAL", "REVERSE"]
SHIFT_RANGES = [(0, 1), (0, 3), (-1, 1), (-3, 3), (-3, 3), (-6, 6)]


def gen_rules(rng, n_labels, n_rules, lo, hi, max_arity=4):
    rules = []
    for _ in range(n_rules):
        p = rng.randrange(n_labels)
        ar = rng.choice([0, 1, 1, 2, 2, 2, 3, 4][: 4 + max_arity])
        ch = []
        for _ in range(ar):
            r = rng.random()
            if r < 0.1:
                ch.append(p)  # parent among its children
            elif r < 0.25 and ch:
                ch.append(rng.choice(ch))  # repeated child
            else:
                ch.append(rng.randrange(n_labels))
        sh = [rng.randint(lo, hi) for _ in ch]
        rules.append([p, ch, sh, rng.choice(BUCKETS)])
    return rules


def gen(rng, tier):
    big = tier == "thorough"
    n_labels = rng.randint(1, 14 if big else 12)
    if rng.random() < 0.5:
        n_labels = min(n_labels, rng.randint(1, 5))
    n_rules = rng.randint(1, 40 if big else 25)
    lo, hi = rng.choice(SHIFT_RANGES)
    rules = gen_rules(rng, n_labels, n_rules, lo, hi)
    order = list(range(n_rules))
    rng.shuffle(order)
    ops = []
    burst = rng.choice([0.0, 0.3, 0.7])
    for i in order:
        ops.append(["ins", i])
        if rng.random() < 0.2:
            ops.append(["ins", rng.choice(order[: order.index(i) + 1])])  # re-delivery
        if rng.random() >= burst:
            k = rng.choice(["check", "check", "q_pump", "q_sub", "q_stable"])
            if k == "q_pump":
                ops.append([k, rng.randrange(n_labels + 3)])  # possibly never-seen label
            else:
                ops.append([k])
    ops.append(["check"])
    return {
        "n_labels": n_labels,
        "rules": rules,
        "ops": ops,
        "root": rng.randrange(n_labels),
        "order2_seed": rng.randrange(1 << 30),
    }


class _FakeRule:
    """Carries a forest key; what RuleDBForest.add needs and nothing else."""

    possibly_empty = False
    children = ()

    def __init__(self, key):
        self.key = key

    def forest_key(self, get_label, is_empty):  # pylint: disable=unused-argument
        return self.key

    def is_reversible(self):
        return False


class _FakeClassDB:
    @staticmethod
    def get_label(x):
        return x

    @staticmethod
    def is_empty(*_a):
        return False


class _FakeSearcher:
    def __init__(self, root):
        self.start_label = root
        self.classdb = _FakeClassDB()
        self.strategy_pack = None


def key_of(r):
    return ForestRuleKey(r[0], tuple(r[1]), tuple(r[2]), RuleBucket[r[3]])


def fdict(tm):
    return {k: (L.INF if v is None else v) for k, v in tm.function.items()}


def execute(R, ctx):
    import random

    rules = R["rules"]
    tm = TableMethod()
    db = RuleDBForest(reverse=False)
    db.link_searcher(_FakeSearcher(R["root"]))
    delivered = []  # reference multiset (as list of triples)
    ref = {}
    prev = {}
    finite_pos = False
    late_inf = False
    n_ins = 0

    def compare(where):
        nonlocal prev, finite_pos
        got = fdict(tm)
        ctx.ev(where, sorted(got.items()))
        if got != ref:
            raise Violation("function-not-lfp", f"{where}: TableMethod.function={sorted(got.items())} reference LFP={sorted(ref.items())} rules={delivered}")
        got2 = fdict(db.table_method)
        if got2 != ref:
            raise Violation("ruledb-function-not-lfp", f"{where}: RuleDBForest function={sorted(got2.items())} reference={sorted(ref.items())}")
        for k, v in prev.items():
            if got.get(k, 0) < v:
                raise Violation("not-monotone", f"{where}: value of {k} decreased from {v} to {got.get(k, 0)}")
        prev = got
        if any(v != L.INF for v in got.values()):
            finite_pos = True

    for op in R["ops"]:
        k = op[0]
        if k == "ins":
            if op[1] >= len(rules):
                continue
            r = rules[op[1]]
            was_inf = {l for l, v in ref.items() if v == L.INF}
            tm.add_rule_key(key_of(r))
            db.add(r[0], tuple(r[1]), _FakeRule(key_of(r)))
            delivered.append((r[0], tuple(r[1]), tuple(r[2])))
            n_ins += 1
            ref = L.lfp(delivered, start=ref)
            ctx.ev("ins", op[1])
            if n_ins > 1 and {l for l, v in ref.items() if v == L.INF} - was_inf:
                late_inf = True
            # status is queried after every insertion (cheaply) - full compare on 'check'
            for l in (r[0],) + tuple(r[1]):
                want = ref.get(l, 0) == L.INF
                if tm.is_pumping(l) != want:
                    raise Violation("pumping-mismatch", f"after insertion #{n_ins} is_pumping({l})={not want}, reference says {want}; rules={delivered}")
                if db.is_verified(l) != want:
                    raise Violation("ruledb-verified-mismatch", f"after insertion #{n_ins} RuleDBForest.is_verified({l})={not want}, reference {want}")
            # internal probes (read only)
            if getattr(tm, "_gap_size", 1) > 1:
                ctx.probe("gap_resized")
            if any(s < 0 for s in r[2]):
                ctx.probe("negative_shift_inserted")
        elif k == "check":
            compare(f"check@{n_ins}")
            want_root = ref.get(R["root"], 0) == L.INF
            if db.has_specification() != want_root:
                raise Violation("has-specification-mismatch", f"has_specification()={not want_root} but root {R['root']} pumping is {want_root}")
        elif k == "q_pump":
            l = op[1]
            want = ref.get(l, 0) == L.INF
            got = tm.is_pumping(l)
            ctx.ev("pump?", l, got)
            if got != want:
                raise Violation("pumping-mismatch", f"is_pumping({l})={got}, reference says {want}; rules={delivered}")
            compare(f"after-query@{n_ins}")
        elif k == "q_sub":
            inf = {l for l, v in ref.items() if v == L.INF}
            got = sorted((x.parent, x.children, x.shifts) for x in tm.pumping_subuniverse())
            want = sorted(t for t in delivered if t[0] in inf and inf.issuperset(t[1]))
            ctx.ev("sub", len(got))
            if got != want:
                raise Violation("pumping-subuniverse", f"pumping_subuniverse={got} expected {want}")
        elif k == "q_stable":
            inf = sorted(l for l, v in ref.items() if v == L.INF)
            got = sorted(tm.stable_subset())
            ctx.ev("stable", got)
            if got != inf:
                raise Violation("stable-subset", f"stable_subset={got} expected {inf}")
        else:
            raise ValueError(k)

    # reference self check (cap K vs 2K) - a disagreement is a harness error
    try:
        full = L.lfp_checked(delivered)
    except L.CapDisagreement as e:
        raise HarnessError(str(e)) from e
    if full != ref:
        raise HarnessError(f"incremental reference {ref} != from-scratch reference {full}")

    # order independence: same multiset, two other orders, fresh tables
    idx = [op[1] for op in R["ops"] if op[0] == "ins" and op[1] < len(rules)]
    rng = random.Random(R["order2_seed"])
    o2 = list(idx)
    rng.shuffle(o2)
    for name, order in (("shuffled", o2), ("reversed", idx[::-1])):
        t2 = TableMethod()
        for i in order:
            t2.add_rule_key(key_of(rules[i]))
        if fdict(t2) != fdict(tm):
            raise Violation("order-dependent", f"{name} order gives {sorted(fdict(t2).items())}, original order {sorted(fdict(tm).items())}; rules={delivered}")
    # bursts: one table that is only queried at the very end (grouping independence)
    if held_back_probe(tm):
        ctx.probe("rule_held_back_above_gap_at_end")

    if any(v == L.INF for v in ref.values()):
        ctx.probe("some_class_pumps")
    if finite_pos:
        ctx.probe("finite_positive_value")
    if late_inf:
        ctx.probe("infinite_after_later_insertion")
    ctx.stat("insertions", n_ins)
    ctx.set_state((sorted(map(repr, delivered)), idx))
    ctx.nontrivial = (finite_pos or late_inf) and len({repr(r) for r in delivered}) >= 3


def held_back_probe(tm):
    return bool(getattr(tm, "_rule_holding_extra_terms", None))


def simplify(R):
    rules = R["rules"]
    # shrink a shift toward 0, drop a child
    for i, r in enumerate(rules):
        for j, s in enumerate(r[2]):
            if s != 0:
                c = dict(R)
                nr = [list(x) for x in rules]
                nr[i] = [r[0], list(r[1]), list(r[2]), r[3]]
                nr[i][2][j] = s - 1 if s > 0 else s + 1
                c["rules"] = nr
                yield c
        if r[1]:
            c = dict(R)
            nr = [list(x) for x in rules]
            nr[i] = [r[0], list(r[1][:-1]), list(r[2][:-1]), r[3]]
            c["rules"] = nr
            yield c
