"""
C08 - random sampling from a specification is exactly uniform.

SAMPLER harness.  Specifications come from fault-free simulated searches in the
words world (default and forest rule DBs, with and without statistics, with
fiat-verified classes whose samplers draw from the same simulated random
source).  The only nondeterminism of a sampler is the random source, so the
simulator owns all of it and ENUMERATES it - no statistical test is used:

 local   for every rule of the specification, every n and parameter tuple with
         a positive count c, the rule's constructor is called exactly as the
         rule calls it, once for every value of its single draw randint(1, c),
         with the sub-samplers replaced by tokens.  The number of values that
         lead to a child composition must equal the number of objects that
         composition accounts for (product of brute-force child counts).
 global  a depth-first explorer re-executes spec.random_sample_object_of_size
         under scripted outcomes until the decision tree is exhausted (capped),
         accumulating exact probabilities as Fractions: every object of the
         brute-force set must receive exactly 1/count and nothing else.
 refusal sizes / parameters with count 0 raise InvalidOperationError.
"""
from collections import Counter
from fractions import Fraction
from itertools import product

from ..core import Violation
from ..rng import ScriptExhausted, SimRandom, next_script
from . import search_common as S
from ..worlds import words as WW

from comb_spec_searcher.exception import InvalidOperationError
from comb_spec_searcher.strategies.constructor import CartesianProduct, DisjointUnion
from comb_spec_searcher.strategies.rule import Rule, VerificationRule

ID = "C08"
QUICK_RUNS = 700
CHUNK = 10
THOROUGH_BUDGET_S = 900
WATCHDOG = 150.0
LEVEL = "exploration"
RULE = (
    "one run = one specification from a fault-free simulated search (default / forest DB; 0-2 statistics; fiat-verified classes) whose "
    "rules are all enumerated locally for n <= 5 (6 in thorough) and whose root sampler is explored globally for small counts "
    "(<= 3000 paths per (n, parameters)); non-trivial = >= 3 rules with a union or product constructor and >= 50 local decision "
    "values enumerated; distinct = distinct set of classes of the specification"
)
REAL_VS_STUB = {
    "real": ["constructor.disjoint.DisjointUnion.random_sample_sub_objects", "constructor.cartesian.CartesianProduct.random_sample_sub_objects", "strategies.rule.Rule.random_sample_object_of_size", "specification.random_sample_object_of_size"],
    "stub": ["random source: every outcome enumerated (SimRandom scripted)", "local pass: sub-samplers are tokens", "words world"],
}
ASSUMPTIONS = [
    "rules whose constructor does not implement sampling (complement / quotient) raise NotImplementedError, which is documented; they are skipped",
    "the inner enumeration of the random source is exhaustive; the outer choice of specifications is sampled",
]
PATH_CAP = 3000


def gen(rng, tier):
    for _ in range(20):
        R = S.gen_search(rng, tier, ruledb=rng.choice(["default", "forest", "forest_noreverse", "forget"]), flavour=ID)
        pk = R["pack"]
        if any(x["t"] == "TrackLetter" for x in pk["inferral"] + pk["initial"]):
            continue
        break
    if rng.random() < 0.3 and R["world"].get("marks", 1) == 1:
        # marked words: a rule whose backward map has several preimages (uniform pick among them)
        R["world"]["marks"] = rng.choice([2, 3])
        R["pack"]["initial"] = [{"t": "ForgetMark", "lazy": False}] + R["pack"]["initial"]
    R["ops"] = [["auto", {"perc": 1, "smallest": rng.random() < 0.3, "status_update": None, "budgets": [], "tail_budget": None}]]
    R["clock"] = {"policy": "frozen", "seed": 0, "stall": 64, "skew_p": 0.0}
    R["config"]["debug"] = False
    R["nmax"] = 5 if tier != "thorough" or len(R["world"]["alphabet"]) == 3 else 6
    if len(R["world"]["alphabet"]) == 3:
        R["nmax"] = 4
    return R


def _tok(i):
    def sampler(n, **p):
        return ("tok", i, n, tuple(sorted(p.items())))

    return sampler


def local_pass(spec, nmax, inst, ctx):
    decisions = 0
    constructors = 0
    for rule in list(spec.rules_dict.values()):
        if isinstance(rule, VerificationRule) or not isinstance(rule, Rule):
            continue
        try:
            cons = rule.constructor
        except NotImplementedError:
            continue
        if not isinstance(cons, (DisjointUnion, CartesianProduct)):
            ctx.probe("rule_without_sampler_skipped")
            continue
        constructors += 1
        children = rule.children
        names = rule.comb_class.extra_parameters
        tokens = tuple(_tok(i) for i in range(len(children)))
        for n in range(nmax + 1):
            terms = WW.truth_terms(rule.comb_class, n)
            for params, c in sorted(terms.items()):
                kw = dict(zip(names, params))
                tally = Counter()
                for v in range(c):
                    rng = SimRandom("scripted", script=[v])
                    inst.swap(rng=rng)
                    try:
                        res = cons.random_sample_sub_objects(c, tokens, rule.subrecs, n, **kw)
                    except NotImplementedError:
                        ctx.probe("rule_without_sampler_skipped")
                        res = None
                        break
                    if len(rng.decisions) != 1 or rng.decisions[0][0] != c:
                        raise Violation("draw-shape", f"{type(cons).__name__} of {rule.comb_class} at n={n} {kw}: draws {rng.decisions}, expected one draw over {c} values")
                    tally[res] += 1
                    decisions += 1
                if res is None:
                    break
                for comp, cnt in tally.items():
                    expected = 1
                    for tk in comp:
                        if tk is None:
                            continue
                        _, i, cn, cp = tk
                        ch = children[i]
                        cpd = dict(cp)
                        key = tuple(cpd[k] for k in ch.extra_parameters)
                        expected *= WW.truth_terms(ch, cn).get(key, 0)
                    if cnt != expected:
                        raise Violation(
                            "local-weights",
                            f"{type(cons).__name__} of {rule.comb_class} (children {children}) at n={n} {kw}: composition {comp} is reached by {cnt} of {c} draw values, it accounts for {expected} objects",
                        )
    ctx.stat("local_decision_values", decisions)
    ctx.stat("constructors_enumerated", constructors)
    return decisions, constructors


def global_pass(spec, start, nmax, inst, ctx):
    names = start.extra_parameters
    explored = 0
    for n in range(min(nmax, 5) + 1):
        truth = WW.truth_terms(start, n)
        # refusal for an empty size / parameter
        for vals in product(range(n + 1), repeat=len(names)):
            if truth.get(vals, 0) == 0:
                inst.swap(rng=SimRandom("first"))
                WW.CURRENT_RNG = inst.rng
                try:
                    obj = spec.random_sample_object_of_size(n, **dict(zip(names, vals)))
                except InvalidOperationError:
                    ctx.stat("refusals")
                    continue
                except NotImplementedError:
                    return explored
                except Exception as e:  # pylint: disable=broad-except
                    raise Violation("no-refusal", f"sampling size {n} {vals} of an empty size raised {type(e).__name__} instead of the documented InvalidOperationError") from e
                raise Violation("no-refusal", f"sampling size {n} {vals} returned {obj} although the class has no such object")
        for params, count in sorted(truth.items()):
            if count > 14:
                continue
            objs = [w for w in WW.truth_objects(start, n) if start.get_parameters(w) == params]
            prob = Counter()
            script = []
            paths = 0
            complete = True
            while script is not None:
                rng = SimRandom("scripted", script=script)
                inst.swap(rng=rng)
                WW.CURRENT_RNG = rng
                try:
                    obj = spec.random_sample_object_of_size(n, **dict(zip(names, params)))
                except NotImplementedError:
                    ctx.probe("spec_without_sampler")
                    return explored
                except ScriptExhausted as e:
                    raise Violation("draw-shape", f"decision tree is not stable under replay: {e}") from e
                if obj not in objs:
                    raise Violation("sample-outside-class", f"sampling n={n} {params} returned {obj}, not an object of {start} with these parameters")
                prob[tuple(obj)] += rng.probability()
                paths += 1
                if paths > PATH_CAP:
                    complete = False
                    break
                script = next_script(rng.decisions)
            if not complete:
                ctx.probe("global_pass_capped")
                continue
            explored += paths
            ctx.stat("global_paths", paths)
            want = Fraction(1, count)
            for w in objs:
                if prob.get(tuple(w), 0) != want:
                    raise Violation(
                        "not-uniform",
                        f"sampling {start} at n={n} {params}: object {tuple(w)} has probability {prob.get(tuple(w), 0)}, expected {want}; distribution {dict(prob)}",
                    )
            if sum(prob.values()) != 1:
                raise Violation("not-uniform", f"probabilities sum to {sum(prob.values())}")
            ctx.probe("global_case_exact")
    return explored


def execute(R, ctx):
    sim = S.Sim(R, ctx, "C08")
    start = sim.world_class
    got = {}

    def on_spec(spec, how):
        got["spec"] = spec

    with S.install(sim) as inst:
        try:
            sim.build()
            res = S.exec_ops(sim, R, ctx, on_spec)
        except S.PacketCap:
            res = "capped"
        ctx.probe("search_" + res)
        if res != "spec":
            ctx.set_state(("nospec", repr(start)))
            return
        spec = got["spec"]
        S.seams.SINK.listener = None
        if spec.number_of_rules() > 60:
            ctx.probe("spec_too_big")
            ctx.set_state(("toobig", repr(start)))
            return
        decisions, constructors = local_pass(spec, R["nmax"], inst, ctx)
        explored = global_pass(spec, start, R["nmax"], inst, ctx)
        ctx.stat("specs_sampled")
        ctx.probe("db_" + R["config"]["ruledb"])
        if start.extra_parameters:
            ctx.probe("with_statistics")
        ctx.nontrivial = constructors >= 3 and decisions >= 50
        ctx.set_state(sorted(map(repr, spec.rules_dict)))
        ctx.set_interleaving((decisions, explored))
        ctx.fault("random_outcomes_enumerated", decisions + explored)


simplify = S.simplify_search


def evidence_extra(outs):
    return {
        "inner_enumeration_exhaustive": True,
        "inner_enumeration_note": "every value of every constructor draw (local pass) and every path of the root sampler's decision tree below the path cap (global pass) was executed",
    }
