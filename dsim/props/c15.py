"""
C15 - the class database is a stable bijection between classes and dense labels.

CLASSDB machine: a real ClassDB over a pool of small classes (equal but not
identical copies, deliberately colliding hashes, with and without
to_bytes/from_bytes, a few empty ones) is driven by a seeded history of label
lookups, class lookups, membership tests, emptiness queries, truthful
set_empty, add, iteration and pickle restart.  Reference: list + dict.
"""

import pickle

from ..core import Violation, pickle_roundtrip
from .. import seams  # noqa: F401

from comb_spec_searcher.class_db import ClassDB
from comb_spec_searcher.combinatorial_class import CombinatorialClass

ID = "C15"
QUICK_RUNS = 20000
CHUNK = 250
THOROUGH_BUDGET_S = 600
LEVEL = "exploration"
RULE = (
    "histories of <=60 (thorough <=200) ops over a pool of 20 classes (keys 0..19, hash = key mod 3, every "
    "lookup uses a fresh equal copy; key mod 7 == 3 is empty), with or without byte compression (per run); "
    "non-trivial = at least 3 classes labelled, at least one membership test of an unknown key and one "
    "emptiness query; distinct = distinct (compression, op history)"
)
REAL_VS_STUB = {
    "real": ["class_db.ClassDB / LabelToInfo / ClassToInfo", "zlib", "pickle"],
    "stub": ["pool classes (user code)", "op history stands in for the searcher"],
}
ASSUMPTIONS = [
    "set_empty is only ever called with the truthful value (caller contract)",
    "is_empty(class) without a label is only called for classes already in the database (its documented use)",
    "an unknown integer passed to get_label/get_class must raise (KeyError or IndexError accepted) and must never return",
]


class Interrupted(Exception):
    """Injected fault: the class's own emptiness check is interrupted."""


FAIL_NEXT = [False]


def truth_empty(k):
    return k % 7 == 3


class PoolClass(CombinatorialClass):
    """Plain class: stored uncompressed."""

    def __init__(self, k):
        self.k = k

    def is_empty(self):
        if FAIL_NEXT[0]:
            FAIL_NEXT[0] = False
            raise Interrupted()
        return truth_empty(self.k)

    def __eq__(self, other):
        return type(other) is type(self) and other.k == self.k

    def __hash__(self):
        return self.k % 3

    def __repr__(self):
        return f"{type(self).__name__}({self.k})"

    __str__ = __repr__

    @classmethod
    def from_dict(cls, d):
        return cls(d["k"])


class BytesClass(PoolClass):
    """Class with to_bytes / from_bytes: stored zlib-compressed."""

    def to_bytes(self):
        return b"K%03d" % self.k + b"x" * (self.k % 5)

    @classmethod
    def from_bytes(cls, b):
        return cls(int(b[1:4]))


KINDS = {"plain": PoolClass, "bytes": BytesClass}


def gen(rng, tier):
    big = tier == "thorough"
    n_ops = rng.randint(3, 200 if big else 60)
    pool = rng.choice([3, 6, 12, 20])
    w = {
        "label_c": rng.choice([3, 6]),
        "label_i": rng.choice([1, 2]),
        "class_i": rng.choice([1, 2]),
        "class_c": rng.choice([0, 1]),
        "in_c": rng.choice([1, 2]),
        "in_i": rng.choice([1, 3]),
        "empty": rng.choice([1, 2]),
        "empty_l": rng.choice([0, 1]),
        "set_empty": rng.choice([0, 1]),
        "empty_fault": rng.choice([0, 0, 1, 2]),
        "add": rng.choice([0, 1]),
        "iter": rng.choice([0, 1]),
        "restart": rng.choice([0, 0, 1]),
    }
    kinds = [k for k, v in w.items() for _ in range(v)]
    ops = []
    for _ in range(n_ops):
        k = rng.choice(kinds)
        if k in ("label_c", "class_c", "in_c", "add"):
            ops.append([k, rng.randrange(pool)])
        elif k in ("label_i", "class_i", "in_i"):
            # offset relative to the current size: -3 .. +2 around the end, or absolute small / negative
            ops.append([k, rng.choice(["abs", "rel"]), rng.randint(-3, 3)])
        elif k in ("empty", "empty_l", "set_empty", "empty_fault"):
            ops.append([k, rng.randrange(1 << 16)])  # picks among known labels
        else:
            ops.append([k])
    return {"kind": rng.choice(["plain", "bytes"]), "ops": ops}


def execute(R, ctx):
    FAIL_NEXT[0] = False
    cls = KINDS[R["kind"]]
    db = ClassDB(cls)
    keys = []  # label -> pool key
    lab = {}  # pool key -> label
    unknown_tests = 0
    empties = 0

    def resolve_int(mode, off):
        return off if mode == "abs" else len(keys) + off

    def in_range(i):
        return 0 <= i < len(keys)

    for op in R["ops"]:
        k = op[0]
        if k in ("label_c", "add"):
            c = cls(op[1])
            if k == "add":
                db.add(c)
                got = db.get_label(cls(op[1]))
            else:
                got = db.get_label(c)
            if op[1] not in lab:
                lab[op[1]] = len(keys)
                keys.append(op[1])
                ctx.probe("label_allocated")
            else:
                ctx.probe("label_reused")
            ctx.ev(k, op[1], got)
            if got != lab[op[1]]:
                raise Violation("label-mismatch", f"get_label({c}) = {got}, expected {lab[op[1]]} (first-appearance order {keys})")
        elif k == "label_i":
            i = resolve_int(op[1], op[2])
            try:
                got = db.get_label(i)
            except (KeyError, IndexError) as e:
                ctx.ev(k, i, type(e).__name__)
                if in_range(i):
                    raise Violation("label-lookup-failed", f"get_label({i}) raised {type(e).__name__} with {len(keys)} classes stored")
                continue
            ctx.ev(k, i, got)
            if not in_range(i):
                raise Violation("label-out-of-range", f"get_label({i}) returned {got} with {len(keys)} classes stored (labels are 0..{len(keys)-1})")
            if got != i:
                raise Violation("label-mismatch", f"get_label({i}) = {got}")
        elif k == "class_i":
            i = resolve_int(op[1], op[2])
            try:
                got = db.get_class(i)
            except (KeyError, IndexError) as e:
                ctx.ev(k, i, type(e).__name__)
                if in_range(i):
                    raise Violation("class-lookup-failed", f"get_class({i}) raised {type(e).__name__} with {len(keys)} classes stored")
                continue
            ctx.ev(k, i, repr(got))
            if not in_range(i):
                raise Violation("class-for-non-label", f"get_class({i}) returned {got} with {len(keys)} classes stored (labels are 0..{len(keys)-1})")
            if type(got) is not cls or got != cls(keys[i]):
                raise Violation("class-mismatch", f"get_class({i}) = {got!r}, stored {cls(keys[i])!r}")
        elif k == "class_c":
            c = cls(op[1])
            got = db.get_class(c)  # labels the class if unknown
            if op[1] not in lab:
                lab[op[1]] = len(keys)
                keys.append(op[1])
            ctx.ev(k, op[1], repr(got))
            if got != c:
                raise Violation("class-mismatch", f"get_class({c!r}) = {got!r}")
        elif k == "in_c":
            c = cls(op[1])
            try:
                got = c in db
            except Exception as e:  # pylint: disable=broad-except
                raise Violation("membership-raises", f"({c!r} in db) raised {type(e).__name__}: {e}") from e
            ctx.ev(k, op[1], got)
            want = op[1] in lab
            if not want:
                unknown_tests += 1
            if got is not want:
                raise Violation("membership-wrong", f"({c!r} in db) = {got!r}, expected {want}")
        elif k == "in_i":
            i = resolve_int(op[1], op[2])
            try:
                got = i in db
            except Exception as e:  # pylint: disable=broad-except
                raise Violation("membership-raises", f"({i} in db) raised {type(e).__name__} with {len(keys)} classes stored") from e
            ctx.ev(k, i, got)
            want = in_range(i)
            if not want:
                unknown_tests += 1
            if got is not want:
                raise Violation("membership-wrong", f"({i} in db) = {got!r} with {len(keys)} classes stored")
        elif k in ("empty", "empty_l", "set_empty", "empty_fault"):
            if not keys:
                continue
            l = op[1] % len(keys)
            c = cls(keys[l])
            truth = truth_empty(keys[l])
            if k == "empty_fault":
                # fault: the class's own is_empty() is interrupted (if the database asks it at all)
                FAIL_NEXT[0] = True
                try:
                    got = db.is_empty(c, l) if op[1] % 2 else db.is_empty(c)
                    ctx.ev(k, l, got)
                    if got is not truth:
                        raise Violation("emptiness-wrong", f"is_empty({c!r}) = {got!r}, the class says {truth}")
                except Interrupted:
                    ctx.fault("interrupt_in_is_empty")
                    ctx.ev(k, l, "interrupted")
                FAIL_NEXT[0] = False
                got = db.is_empty(cls(keys[l]))
                if got is not truth:
                    raise Violation("emptiness-wrong-after-interrupt", f"after an interrupted emptiness check is_empty({c!r}) = {got!r}, the class says {truth}")
                empties += 1
                continue
            if k == "set_empty":
                db.set_empty(l, truth)
                ctx.ev(k, l, truth)
                continue
            got = db.is_empty(c) if k == "empty" else db.is_empty(c, l)
            empties += 1
            ctx.ev(k, l, got)
            if got is not truth:
                raise Violation("emptiness-wrong", f"is_empty({c!r}) = {got!r}, the class says {truth}")
        elif k == "iter":
            got = list(db)
            ctx.ev(k, got)
            if got != list(range(len(keys))):
                raise Violation("iteration-wrong", f"iter(db) = {got}, expected 0..{len(keys)-1}")
        elif k == "restart":
            db2 = pickle_roundtrip(db, "C15")
            if not db2 == db:
                raise Violation("restart-unequal", "ClassDB != its pickle round trip")
            db = db2
            ctx.fault("pickle_restart")
            ctx.ev("restart")
        else:
            raise ValueError(k)

    # final cross-check of the whole bijection
    for l, key in enumerate(keys):
        if db.get_label(cls(key)) != l or db.get_class(l) != cls(key):
            raise Violation("final-bijection", f"label {l} <-> {cls(key)!r} broken at the end of the run")
    ctx.stat("classes", len(keys))
    ctx.set_state((R["kind"], R["ops"]))
    ctx.nontrivial = len(keys) >= 3 and unknown_tests >= 1 and empties >= 1
