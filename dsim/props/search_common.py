"""
SEARCH harness, common to C01 C02 C04 C11 C14 C16 C17 (and reused by C13, C19).

A run builds a words world, a pack and a real CombinatorialSpecificationSearcher
from the run descriptor, installs the simulated clock and random source, and
lets a seeded client drive the public API while a scheduler decides slice
boundaries, time-limit interrupts and restarts at work-packet events.

``focus`` selects which oracles are evaluated (the checks are registered per
property); library exceptions are violations under whatever property is
running.
"""

import logging
import pickle

import logzero

from ..clock import SimClock
from ..core import HarnessError, Violation, pickle_roundtrip
from ..ref import specval
from ..ref.queue import QueueMonitor, QueueViolation
from ..rng import SimRandom
from .. import seams
from ..worlds import words as WW

from comb_spec_searcher import CombinatorialSpecificationSearcher
from comb_spec_searcher.exception import (
    ExceededMaxtimeError,
    InvalidOperationError,
    NoMoreClassesToExpandError,
    SpecificationNotFound,
)
from comb_spec_searcher.rule_db import RuleDB, RuleDBForest, RuleDBForgetStrategy
from comb_spec_searcher.strategies.rule import Rule, VerificationRule
from comb_spec_searcher.strategies.strategy import EmptyStrategy

PACKET_CAP = 300
SLICE_JUMP = 5000.0


class PacketCap(BaseException):
    """Raised from the queue seam to end a run that exceeds its packet budget."""


# ---------------------------------------------------------------------------
# Generation
# ---------------------------------------------------------------------------


def _mask(rng, p=0.3, lens=(2, 3, 4, 5, 6)):
    if rng.random() < p:
        return [rng.randrange(1000), rng.choice([50, 70, 85, 95]), rng.choice(lens)]
    return None


def gen_world(rng, tier, flavour=None):
    big = tier == "thorough"
    asize = rng.choice([2, 2, 2, 3] if not big else [2, 2, 3])
    if flavour != "C08" and rng.random() < 0.06:
        asize = 1  # one letter: every expansion has a single (possibly empty) longer child
    if flavour == "C02" and rng.random() < 0.25:
        asize = 3  # three letters: overlapping cycles of one-way renamings
    alphabet = list(range(asize))
    n_pat = rng.choice([0, 1, 1, 2, 2, 3])
    pats = []
    for _ in range(n_pat):
        ln = rng.choice([1, 2, 2, 3, 3, 4] if asize == 2 else [1, 2, 2, 3])
        pats.append([rng.choice(alphabet) for _ in range(ln)])
    if rng.random() < 0.25 and pats:
        # a redundant pattern (contains another one): gives ReducePatterns something to do
        base = rng.choice(pats)
        ext = list(base) + [rng.choice(alphabet)] if rng.random() < 0.5 else [rng.choice(alphabet)] + list(base)
        pats.append(ext)
    prefix = [rng.choice(alphabet) for _ in range(rng.choice([0, 0, 0, 1, 2]))]
    if rng.random() < 0.08:
        a = rng.choice(alphabet)
        prefix = [a, a]  # a square front: RemoveFront(split) yields a repeated child
    if rng.random() < 0.12:
        pats = []  # pattern-free worlds: SplitZeros (a product of two non-atoms) applies
    r = rng.random()
    if r < 0.4:
        tracked = []
    elif r < 0.8:
        tracked = [rng.choice(alphabet + [3])] if rng.random() < 0.2 else [rng.choice(alphabet)]
    else:
        a = rng.choice(alphabet)
        tracked = [a, a] if rng.random() < 0.4 else [a, rng.choice(alphabet + [3])]
    return {
        "alphabet": alphabet,
        "patterns": pats,
        "prefix": prefix,
        "tracked": tracked,
        "compress": rng.random() < 0.3,
        "marks": rng.choice([2, 3]) if rng.random() < 0.06 else 1,
    }


def gen_pack(rng, world, flavour=None, allow_iterative=True):
    tracked = world["tracked"]
    lazy = lambda: rng.random() < 0.25  # noqa: E731
    initial = []
    if world.get("marks", 1) > 1:
        initial.append({"t": "ForgetMark", "lazy": lazy()})
    dup_stats = len(tracked) == 2 and tracked[0] == tracked[1]
    if rng.random() < 0.9:
        initial.append(
            {
                "t": "RemoveFront",
                "mask": _mask(rng, 0.2, (3, 4, 5, 6)),
                "lazy": lazy(),
                "split": rng.random() < 0.35,
                "merge": dup_stats and rng.random() < 0.5,
                "split3": rng.random() < 0.3,
                "pe": rng.random() < 0.25,
            }
        )
    if not world["patterns"] and rng.random() < 0.7:
        initial.append({"t": "SplitZeros", "mask": _mask(rng, 0.15), "lazy": lazy()})
        if rng.random() < 0.5:
            initial.reverse()
    inferral = []
    unary_pool = [{"t": "ReducePatterns"}, {"t": "DropDeadStatistic"}, {"t": "MergeDuplicateStatistics"}]
    track_used = False
    if not tracked and rng.random() < 0.3:
        unary_pool.append({"t": "TrackLetter", "letter": rng.choice(world["alphabet"])})
    for u in unary_pool:
        r = rng.random()
        if r < 0.45:
            u = dict(u, mask=_mask(rng, 0.15), lazy=lazy(), two_way=rng.random() < 0.7, reversible=rng.random() < 0.75)
            if u["t"] != "TrackLetter":
                u["empty_first"] = rng.random() < 0.3
            if u["t"] == "TrackLetter":
                track_used = True
            if u["t"] != "TrackLetter" and rng.random() < 0.3:
                # the same strategy twice with opposite declarations, both keeping the parent: the same
                # (parent, child) key then arrives both as a one-way and as a two-way rule
                initial.append(dict(u, ignore_parent=False))
                initial.append(dict(u, two_way=not u["two_way"], mask=None, lazy=False, ignore_parent=False))
            else:
                (inferral if rng.random() < 0.7 else initial).append(u)
    if rng.random() < (0.4 if flavour in ("C02", "C17") else 0.15):
        # one-way renamings: directed cycles of one-way unary rules (overlapping ones with three letters)
        n = len(world["alphabet"])
        if n == 3 and rng.random() < 0.7:
            perms = rng.choice([[[1, 2, 0], [2, 0, 1]], [[1, 2, 0], [0, 2, 1]], [[1, 2, 0], [1, 0, 2]], [[2, 0, 1], [2, 1, 0]], [[1, 2, 0]]])
            if rng.random() < 0.5:
                perms.reverse()
        else:
            perms = [[1, 0] + list(range(2, n))]
        ef_all = rng.random() < 0.3
        for pm in perms:
            # mixed declarations: a two-way renaming can close a cycle whose other edges are one-way;
            # empty_first: every step of the cycle is a two-child rule whose first child is empty
            initial.append(
                {
                    "t": "Rename",
                    "perm": pm,
                    "two_way": rng.random() < 0.3,
                    "ignore_parent": False,
                    "mask": _mask(rng, 0.1),
                    "lazy": False,
                    "empty_first": ef_all or rng.random() < 0.15,
                }
            )
    rng.shuffle(inferral)
    exp_mask = _mask(rng, 0.35)
    drop = bool(tracked) and rng.random() < 0.35
    alast = rng.random() < 0.3
    r = rng.random()
    if r < 0.45:
        expansion = [[{"t": "Expand", "d": 1, "mask": exp_mask, "lazy": lazy(), "drop": drop, "atom_last": alast}]]
    elif r < 0.6:
        expansion = [[{"t": "Expand", "d": 2, "mask": exp_mask, "lazy": lazy(), "drop": drop, "atom_last": alast}]]
    elif r < 0.75:
        expansion = [
            [{"t": "Expand", "d": 1, "mask": exp_mask, "lazy": lazy(), "drop": drop, "atom_last": alast}],
            [{"t": "Expand", "d": 2, "mask": _mask(rng, 0.35), "lazy": lazy(), "drop": drop, "atom_last": alast}],
        ]
    else:
        expansion = [
            [
                {
                    "t": "ExpandFactory",
                    "ds": rng.choice([[1], [1, 2], [2]]),
                    "as_rules": rng.random() < 0.5,
                    "foreign": rng.choice([None, None, "parent", "reduced"]),
                    "dup": rng.random() < 0.3,
                    "mask": exp_mask,
                    "foreign_first": rng.random() < 0.5,
                    "with_remove_front": rng.random() < 0.4,
                }
            ]
        ]
    if flavour != "C08" and rng.random() < 0.15:
        # the same expansion with the atom folded into a user-defined constructor: all children may be empty
        folded = {"t": "ExpandFolded", "mask": _mask(rng, 0.3), "lazy": lazy()}
        if rng.random() < 0.3 and all(x["t"] == "Expand" for x in expansion[0]):
            expansion[0] = [folded]
        elif rng.random() < 0.5:
            expansion[0].append(folded)
        else:
            expansion[0].insert(0, folded)
    ver = []
    if not tracked and not track_used and rng.random() < 0.5:
        ver.append({"t": "AtomStrategy"})
    else:
        ver.append({"t": "WordAtom"})
    if ver[0]["t"] == "WordAtom" and rng.random() < 0.15:
        # verification through a factory of ready-made rules, one of them for another class
        ver[0] = {"t": "AtomTwinFactory", "foreign": rng.random() < 0.8, "foreign_first": rng.random() < 0.5}
    if rng.random() < 0.3:
        ver.append({"t": "FiatVerified", "salt": rng.randrange(1000), "pct": rng.choice([5, 15, 40]), "ignore_parent": rng.random() < 0.3})
        if rng.random() < 0.5:
            ver.reverse()
    if rng.random() < 0.08:
        # no atom verification at all: only a generous fiat verification; atoms (and most other classes)
        # can then only be enumerated through reverse rules
        ver = [{"t": "FiatVerified", "salt": rng.randrange(1000), "pct": rng.choice([40, 55, 70]), "ignore_parent": False}]
        if tracked and rng.random() < 0.6:
            # ... and an atom that comes last and carries no statistics: when every longer prefix is empty the
            # expansion is an equivalence whose non-empty child is not the first one and has its own parameter map
            for grp in expansion:
                for st in grp:
                    if st["t"] == "Expand":
                        st["drop"] = True
                        st["atom_last"] = True
    symmetries = []
    if rng.random() < 0.2 and len(world["alphabet"]) >= 2:
        n = len(world["alphabet"])
        perm = list(range(n))
        while perm == list(range(n)):
            rng.shuffle(perm)
        if rng.random() < 0.3:
            # the symmetry as a factory of ready-made rules, one of them for the image class
            symmetries.append({"t": "OrbitFactory", "perm": perm, "mask": _mask(rng, 0.1), "foreign_first": rng.random() < 0.5})
        else:
            symmetries.append({"t": "LetterPermutation", "perm": perm, "mask": _mask(rng, 0.1), "lazy": False})
    return {
        "initial": initial,
        "inferral": inferral,
        "expansion": expansion,
        "ver": ver,
        "symmetries": symmetries,
        "iterative": allow_iterative and rng.random() < 0.1,
    }


def gen_auto(rng, final=False, budgets_mode=True):
    a = {
        "perc": rng.choice([1, 1, 10, 50, 100, 0, 150]),
        "smallest": rng.random() < 0.25,
        "status_update": rng.choice([None, None, None, 1, 100]),
    }
    if budgets_mode:
        a["budgets"] = [rng.choice([1, 1, 2, 3, 5, 8, 13, 30]) for _ in range(rng.choice([0, 1, 2, 3, 5]))]
        a["tail_budget"] = rng.choice([None, None, 4, 20])
    if not final:
        # time limit: interrupt after slice j
        a["max_slices"] = rng.choice([1, 1, 2, 3])
    return a


def gen_search(rng, tier, ruledb=None, flavour=None):
    world = gen_world(rng, tier, flavour)
    pack = gen_pack(rng, world, flavour)
    db = ruledb or rng.choice(["default", "default", "forget", "forest", "forest", "forest_noreverse"])
    policy = rng.choice(["frozen", "frozen", "jitter"])
    clock = {
        "policy": policy,
        "seed": rng.randrange(1 << 30),
        "stall": rng.choice([8, 64]) if policy == "frozen" else rng.choice([0, 1, 8, 64]),
        "skew_p": rng.choice([0.0, 0.0, 0.05]),
    }
    rg = {"policy": rng.choice(["seeded", "seeded", "first", "last"]), "seed": rng.randrange(1 << 30)}
    ops = []
    fault_free = rng.random() < 0.3
    if not fault_free:
        for _ in range(rng.choice([0, 1, 2, 3, 4])):
            k = rng.choice(["auto_limited", "auto_limited", "level", "has", "get", "status", "restart", "restart"])
            if k == "auto_limited":
                ops.append(["auto", gen_auto(rng, final=False, budgets_mode=True)])
            elif k == "get":
                ops.append(["get", {"smallest": rng.random() < 0.3, "min_time": rng.choice([0, 0.5, 10])}])
            elif k == "status":
                ops.append(["status", rng.random() < 0.2])
            else:
                ops.append([k])
    final = gen_auto(rng, final=True, budgets_mode=not fault_free or rng.random() < 0.5)
    if fault_free:
        final["budgets"] = final.get("budgets", [])[:0]
        final["tail_budget"] = None
    ops.append(["auto", final])
    # after the specification: ask again, possibly after a restart
    for _ in range(rng.choice([0, 0, 1, 2])):
        k = rng.choice(["get", "get", "restart", "has"])
        if k == "get":
            ops.append(["get", {"smallest": rng.random() < 0.3, "min_time": rng.choice([0, 0.5])}])
        else:
            ops.append([k])
    if not db.startswith("forest"):
        # the default / forget DBs turn a stored two-way rule around with to_reverse_rule, which asserts
        # is_reversible: "two-way but irreversible" is only meaningful for the forest DB
        for sect in ("inferral", "initial"):
            pack[sect] = [dict(x, reversible=True) if x.get("two_way") and x.get("reversible") is False else x for x in pack[sect]]
    has_track = any(x["t"] == "TrackLetter" for x in pack["inferral"] + pack["initial"])
    return {
        "world": world,
        "pack": pack,
        "config": {
            "ruledb": db,
            "expand_verified": rng.random() < 0.2,
            "debug": rng.random() < 0.03 and not has_track,
            # forest db: a rule cache handed over as a one-shot iterable (generator / dict view), as the
            # signature allows (Iterable[AbstractRule])
            "rule_cache": rng.choice([None, None, "gen", "values"]) if db == "forest" else None,
        },
        "clock": clock,
        "rng": rg,
        "ops": ops,
        "nmax": (7 if tier == "thorough" else 6) if len(world["alphabet"]) == 2 else 5,
        "order_seed": rng.randrange(1 << 30),
        "fault_free": fault_free,
    }


# ---------------------------------------------------------------------------
# Execution
# ---------------------------------------------------------------------------


def strat_id(s):
    return repr(s)


class Sim:
    """State of one simulated search (scheduler + monitors)."""

    # pylint: disable=too-many-instance-attributes
    def __init__(self, R, ctx, focus):
        self.R = R
        self.ctx = ctx
        self.focus = focus
        self.clock = SimClock(**R["clock"])
        self.rng = SimRandom(R["rng"]["policy"], R["rng"]["seed"])
        self.packets = 0
        self.cur_label = None
        self.rec_rules = []
        self.ok_verified = set()
        self.key_stack = []
        # universes are capped by work packets; runs that use algorithms which are super-linear in
        # the universe by design (forest minimisation, exhaustive 'smallest' search over packs that
        # give a class several rules) get a smaller cap, so that the watchdog only ever sees real hangs
        self.cap = PACKET_CAP
        if R["config"]["ruledb"].startswith("forest"):
            self.cap = 160
        n_exp = sum(len(x.get("ds", [0])) for st in R["pack"]["expansion"] for x in st) + sum(1 for st in R["pack"]["initial"] if st["t"] in ("SplitZeros",))
        wants_smallest = any(op[0] in ("auto", "get") and isinstance(op[1], dict) and op[1].get("smallest") for op in R["ops"])
        if wants_smallest:
            self.cap = min(self.cap, 120 if n_exp <= 1 else 45)
        self.forward_triples = []
        self.armed = None
        self.slice_packets = 0
        self.budgets = []
        self.tail_budget = None
        self.slices = 0
        self.adds = 0
        self.world_class = WW.make_class(R["world"])
        self.pack = WW.make_pack(R["pack"])
        self.allowed = WW.pack_strategies(self.pack)
        self.qmon = None
        self.shadow = {}  # class key -> label
        self.shadow_rev = {}
        self.searcher = None
        self.mirrors = None
        self.trace = []  # coarse trace for twin comparison
        self.record = True
        self.specs = []

    # -- construction ----------------------------------------------------
    def build(self):
        cfg = self.R["config"]
        kwargs = {}
        if cfg.get("rule_cache") and cfg["ruledb"] == "forest":
            cached = []
            for st in self.allowed:
                try:
                    if not isinstance(st, WW.FiatVerified) and (st.verified(self.world_class) if hasattr(st, "verified") else st.applies(self.world_class)):
                        cached.append(st(self.world_class))
                except Exception:  # pylint: disable=broad-except
                    continue
            kwargs["rule_cache"] = (r for r in cached) if cfg["rule_cache"] == "gen" else dict(enumerate(cached)).values()
            self.ctx.probe("forest_rule_cache_" + cfg["rule_cache"])
        db = seams.make_ruledb(cfg["ruledb"], **kwargs)
        q = seams.TracingQueue(self.pack)
        self.qmon = QueueMonitor(
            [strat_id(s) for s in self.pack.inferral_strats],
            [strat_id(s) for s in self.pack.initial_strats],
            [[strat_id(s) for s in st] for st in self.pack.expansion_strats],
        )
        seams.SINK.listener = self.on_event
        css = CombinatorialSpecificationSearcher(
            self.world_class,
            self.pack,
            ruledb=db,
            classqueue=q,
            expand_verified=cfg["expand_verified"],
            debug=cfg["debug"],
        )
        logzero.loglevel(logging.CRITICAL)
        self.searcher = css
        return css

    # -- event seam --------------------------------------------------------
    def on_event(self, kind, *p):
        ctx = self.ctx
        if kind == "q.next":
            wp = p[0]
            self.check_last_packet()
            self.cur_label = wp.label
            self.arm_packet(wp)
            self.packets += 1
            self.slice_packets += 1
            self.clock.event()
            ids = tuple(strat_id(s) for s in wp.strategies)
            ctx.ev("pkt", wp.label, ids, wp.inferral)
            if self.record:
                self.trace.append(("pkt", wp.label, ids, wp.inferral))
            self._q(lambda: self.qmon.on_packet(wp.label, ids, wp.inferral))
            if self.packets > self.cap:
                raise PacketCap()
            # scheduler decision: end the slice after this packet?
            b = self.budgets[0] if self.budgets else self.tail_budget
            if b is not None and self.slice_packets >= b:
                if self.budgets:
                    self.budgets.pop(0)
                self.slice_packets = 0
                self.slices += 1
                self.clock.jump(SLICE_JUMP)
                ctx.fault("slice_boundary")
        elif kind == "q.add":
            self._q(lambda: self.qmon.on_add(p[0]))
        elif kind == "q.stop":
            self._q(lambda: self.qmon.on_stop(p[0]))
        elif kind == "q.verified":
            self._q(lambda: self.qmon.on_stop(p[0]))
        elif kind == "q.noinf":
            self._q(lambda: self.qmon.on_noinf(p[0]))
        elif kind == "q.exhausted":
            self.check_last_packet()
            ctx.ev("exhausted")
            if self.record:
                self.trace.append(("exhausted",))
            self._q(self.qmon.on_exhausted)
        elif kind == "db.link":
            if self.mirrors is not None:
                self.mirrors.link(p[1])
        elif kind == "db.has":
            self.on_has(*p)
        elif kind == "db.add.pre":
            self.on_add_pre(*p)
        elif kind == "db.add":
            self.on_add_post(*p)

    # -- C05 in real searches: detection is exact on the recorded rules -----------
    def on_has(self, db, result):
        if self.focus not in ("C05", "C17", "ALL") or isinstance(db, RuleDBForest) or self.searcher is None:
            return
        from ..ref import trees as T
        from ..ref.graph import scc_partition

        labels = list(db.classdb)
        edges = set()
        for s0, kids, two, _ver in self.rec_rules:
            if len(kids) == 1:
                edges.add((s0, kids[0]))
                if two:
                    edges.add((kids[0], s0))
        part = scc_partition(labels, edges)
        cls = lambda l: min(part[l])  # noqa: E731
        rules = {}
        marked = set()
        for s0, kids, _two, ver in self.rec_rules:
            if ver:
                marked.add(cls(s0))
            if len(kids) == 1 and cls(s0) == cls(kids[0]):
                continue
            rules.setdefault(cls(s0), set()).add(tuple(sorted(cls(k) for k in kids)))
        root = cls(db.root_label)
        pruned = T.iterative_derivable(rules, root) if self.pack.iterative else T.gfp_prune(rules)
        want = root in pruned
        self.ctx.ev("has?", result)
        self.ctx.stat("has_specification_checked")
        if result != want:
            raise Violation(
                "C05:has-specification-wrong-in-search",
                f"has_specification() = {result} after {len(self.rec_rules)} recorded rules, the reference pruning of those rules says {want} "
                f"(iterative={self.pack.iterative}, root label {db.root_label}, representative {db.equivdb[db.root_label]})",
            )
        ok = self.ok_verified
        justified = set()
        for l in labels:
            if not db.is_verified(l):
                continue
            c = cls(l)
            if c in pruned or c in marked or any(m in ok for m in part[l]):
                justified.add(l)
                continue
            raise Violation(
                "C05:verified-unsound-in-search",
                f"after has_specification() label {l} ({db.classdb.get_class(l)}) is reported verified, but its class has no verification rule, "
                f"does not survive the reference pruning of the {len(self.rec_rules)} recorded rules and contains no label verified earlier",
            )
        ok |= justified

    # -- C17: a packet that was handed out must be processed ------------------
    def arm_packet(self, wp):
        css = self.searcher
        self.armed = None
        if css is None or self.focus not in ("C17", "ALL"):
            return
        del WW.CALL_LOG[:]
        if not css.expand_verified and css.ruledb.is_verified(wp.label):
            return  # the searcher skips verified labels
        if wp.inferral and wp.label in css.inferral_expanded:
            return
        c = css.classdb.get_class(wp.label)
        self.armed = (wp.label, strat_id(wp.strategies[0]), c.key(), self.packets + 1)

    def check_last_packet(self):
        armed, self.armed = getattr(self, "armed", None), None
        if armed is None:
            return
        label, sid, key, n = armed
        if (sid, key) not in WW.CALL_LOG:
            raise Violation(
                "C17:packet-not-processed",
                f"packet #{n} ({label}, {sid}) was handed out but the strategy was never applied to the class "
                f"(the work is lost: the queue will not hand it out again)",
            )

    def _q(self, f):
        if self.focus not in ("C16", "C17", "ALL"):
            try:
                f()
            except QueueViolation:
                pass  # reported by the C16 check, not under this property
            return
        try:
            f()
        except QueueViolation as e:
            raise Violation(f"C16:{e.oracle}", e.msg) from e

    # -- C04 invariants at every rule insertion ---------------------------
    def _shadow(self, label, c):
        k = (type(c).__name__, c.key())
        l0 = self.shadow.get(k)
        if l0 is not None and l0 != label:
            raise Violation("C04:class-with-two-labels", f"class {c} has labels {l0} and {label}")
        c0 = self.shadow_rev.get(label)
        if c0 is not None and c0 != k:
            raise Violation("C04:label-with-two-classes", f"label {label} stands for {c0} and for {c}")
        self.shadow[k] = label
        self.shadow_rev[label] = k

    def on_add_pre(self, db, start, ends, rule):
        if isinstance(db, RuleDBForest) and hasattr(db.table_method, "_rules"):
            self.key_stack.append([len(db.table_method._rules), 0])  # pylint: disable=protected-access
        self.adds += 1
        self.clock.event()
        st = rule.strategy
        if self.focus in ("C05", "C17", "ALL") and not isinstance(db, RuleDBForest):
            kids = tuple(sorted(l for l, ch in zip(ends, rule.children) if not (rule.possibly_empty and WW.truth_empty(ch))))
            two = len(kids) == 1 and not isinstance(rule, VerificationRule) and bool(rule.is_two_way())
            self.rec_rules.append((start, kids, two, isinstance(rule, VerificationRule)))
        if self.focus == "C11":
            # what the forward rule looks like to a fixed-point analysis, independent of buckets
            try:
                self.forward_triples.append((start, tuple(ends), tuple(rule.shifts())))
            except Exception:  # pylint: disable=broad-except
                pass
        self.ctx.ev("add", start, tuple(ends), strat_id(st))
        if self.record:
            self.trace.append(("add", start, tuple(ends), strat_id(st)))
        if self.focus in ("C02", "ALL") and not isinstance(st, EmptyStrategy):
            # the forest DB judges productivity from declared shifts: they must be what the
            # rule (and each reverse form the DB derives from it) really reads
            specval.check_declared_shifts(rule, "C02")
            if isinstance(db, RuleDBForest) and db.reverse and rule.is_reversible():
                for i in range(len(rule.children)):
                    specval.check_declared_shifts(rule.to_reverse_rule(i), "C02")
        if self.focus not in ("C04", "ALL"):
            return
        classdb = db.classdb
        c0 = classdb.get_class(start)
        if c0 != rule.comb_class:
            raise Violation("C04:parent-label-mismatch", f"rule for {rule.comb_class} recorded under label {start}, which is {c0}")
        children = tuple(rule.children)
        if len(ends) != len(children):
            raise Violation("C04:child-count", f"{len(ends)} labels for {len(children)} children")
        for l, ch in zip(ends, children):
            cl = classdb.get_class(l)
            if cl != ch:
                raise Violation("C04:child-label-mismatch", f"child {ch} recorded under label {l}, which is {cl}")
            self._shadow(l, ch)
        self._shadow(start, rule.comb_class)
        # genuine: fresh re-application
        if isinstance(st, EmptyStrategy):
            if not WW.truth_empty(rule.comb_class):
                raise Violation("C04:empty-rule-for-nonempty-class", f"{rule.comb_class}")
            return
        if not any(st == s for s in self.allowed):
            raise Violation("C04:foreign-strategy", f"{st!r} is not a strategy of the pack")
        fresh = st.decomposition_function(rule.comb_class)
        if fresh is None:
            raise Violation("C04:strategy-does-not-apply", f"{st!r} does not apply to {rule.comb_class} but a rule was recorded")
        if tuple(fresh) != children:
            raise Violation("C04:children-differ", f"{st!r} on {rule.comb_class} gives {fresh}, recorded {children}")
        try:
            WW.selfcheck_rule(st, rule.comb_class)
        except WW.WorldBug as e:
            raise HarnessError(f"world self-check: {e}") from e
        if len(children) == 1 and children[0] == rule.comb_class:
            raise Violation("C04:self-equivalence-recorded", f"{rule.comb_class}")
        if isinstance(st, WW.Expand) and self.cur_label is not None and start != self.cur_label:
            self.ctx.probe("foreign_parent_rule")

    def _forest_keys(self, db, rule, own):
        """Forest DB: one key for the rule, plus one per child iff reverse rules are on and the
        strategy declares itself reversible - never a reverse key for an irreversible strategy."""
        st = rule.strategy
        rev = db.reverse and not isinstance(rule, VerificationRule) and st.is_reversible(rule.comb_class)
        want = 1 + (len(rule.children) if rev else 0)
        if own != want:
            raise Violation(
                "C11:forest-key-count",
                f"add of {rule.comb_class} -> {tuple(rule.children)} by {st!r} (reversible={bool(rev)}, reverse rules {'on' if db.reverse else 'off'}) "
                f"inserted {own} keys into the table, expected {want}",
            )

    def _forest_key_shifts(self, db, start, ends, rule, inserted):
        """The keys that entered the table carry the shifts the rule really has (derived from the world, not
        from the library): the forward key, and with reverse rules on, the key of every child."""
        if type(rule) is not Rule:  # pylint: disable=unidiomatic-typecheck
            return
        st = rule.strategy
        children = tuple(rule.children)
        if len(children) != len(ends):
            return
        got = set()
        for k in inserted:
            try:
                got.add((k.parent, tuple(k.children), tuple(k.shifts)))
            except AttributeError:
                return  # table internals renamed: this oracle goes without
        fwd = tuple(WW.true_shifts(st, rule.comb_class, children))
        want = [("forward", (start, tuple(ends), fwd))]
        if db.reverse and st.is_reversible(rule.comb_class):
            for i, l in enumerate(ends):
                want.append((f"reverse at child {i}", (l, (start,) + tuple(ends[:i]) + tuple(ends[i + 1 :]), tuple(WW.true_reverse_shifts(fwd, i)))))
        for what, key in want:
            if key not in got:
                near = sorted(k for k in got if k[0] == key[0] and k[1] == key[1])
                raise Violation(
                    "C11:forest-key-shifts",
                    f"add of {rule.comb_class} -> {children} by {st!r}: the {what} key {key} (shifts derived from the world) is not among the keys "
                    f"inserted into the table; same parent and children: {near}",
                )

    def on_add_post(self, db, start, ends, rule):
        if isinstance(db, RuleDBForest) and self.key_stack:
            rules_list = db.table_method._rules  # pylint: disable=protected-access
            now = len(rules_list)
            start_len, nested = self.key_stack.pop()
            if self.key_stack:
                self.key_stack[-1][1] += now - start_len
            if self.focus in ("C11", "C04", "ALL"):
                self._forest_keys(db, rule, now - start_len - nested)
            if self.focus in ("C11", "C02", "ALL"):
                self._forest_key_shifts(db, start, ends, rule, rules_list[start_len:now])
        if self.mirrors is not None:
            self.mirrors.feed(start, ends, rule)
        if self.focus in ("C19S", "ALL") and self.searcher is not None and self.searcher.expand_verified and rule.workable:
            # 'keep working on verified classes': the children of a workable rule are queued whether or not
            # they are verified already (expand_comb_class relies on this in its retry with reverse rules)
            for l in ends:
                if l not in self.qmon.added_set:
                    raise Violation(
                        "C19:workable-child-not-queued",
                        f"searcher created with expand_verified=True: child {l} of the workable rule {start} -> {tuple(ends)} "
                        f"({rule.strategy!r}) was never added to the queue (verified: {db.is_verified(l)})",
                    )
        if self.focus not in ("C04", "ALL"):
            return
        children = tuple(rule.children)
        if isinstance(db, RuleDBForest):
            if rule.possibly_empty:
                for l, ch in zip(ends, children):
                    if WW.truth_empty(ch) and not db.is_verified(l):
                        raise Violation("C04:forest-empty-child-without-rule", f"empty child {ch} (label {l}) has no empty rule after the insertion")
            return
        keep = tuple(sorted(l for l, ch in zip(ends, children) if not (rule.possibly_empty and WW.truth_empty(ch))))
        dropped = len(ends) - len(keep)
        if dropped:
            self.ctx.probe("empty_child_dropped")
        stored = set(iter(db))
        if (start, keep) not in stored:
            # a two-way unary rule may be stored in the other direction only if it was added that way
            raise Violation("C04:stored-key-differs", f"after add({start}, {ends}) the key ({start}, {keep}) is not stored; keys for {start}: {sorted(k for k in stored if k[0] == start)}")

    # -- client ops ----------------------------------------------------------
    def run_auto(self, a):
        css = self.searcher
        self.budgets = list(a.get("budgets", []))
        self.tail_budget = a.get("tail_budget")
        self.slice_packets = 0
        kw = {"perc": a["perc"], "smallest": a["smallest"]}
        if a.get("status_update") is not None:
            kw["status_update"] = a["status_update"]
        if "max_slices" in a:
            kw["max_expansion_time"] = SLICE_JUMP * a["max_slices"] - 1.0
            if not self.budgets and self.tail_budget is None:
                self.tail_budget = 7
        if kw["smallest"] and self.pack.iterative and not isinstance(css.ruledb, RuleDBForest):
            kw["smallest"] = False  # documented InvalidOperationError otherwise
        try:
            spec = css.auto_search(**kw)
        except ExceededMaxtimeError:
            self.check_last_packet()
            self.ctx.fault("time_limit_interrupt")
            self.ctx.probe("maxtime_raised")
            self.ctx.ev("auto", "maxtime")
            return None
        except SpecificationNotFound:
            self.ctx.ev("auto", "notfound")
            self.ctx.probe("specification_not_found")
            return "notfound"
        finally:
            logzero.loglevel(logging.CRITICAL)
        self.ctx.ev("auto", "spec", spec.number_of_rules())
        return spec


def exec_ops(sim, R, ctx, on_spec, ops=None):
    """Run the client program. Returns 'spec' | 'notfound' | 'capped' | 'noresult'."""
    css = sim.searcher
    result = "noresult"
    for op in ops if ops is not None else R["ops"]:
        k = op[0]
        try:
            if k == "auto":
                res = sim.run_auto(op[1])
                if res == "notfound":
                    result = "notfound"
                elif res is not None:
                    result = "spec"
                    on_spec(res, "auto")
            elif k == "level":
                try:
                    css.do_level()
                    sim.check_last_packet()
                    ctx.ev("level")
                except NoMoreClassesToExpandError:
                    ctx.ev("level", "nomore")
                    ctx.probe("no_more_classes")
            elif k == "has":
                h = css.has_specification()
                ctx.ev("has", h)
                if sim.record:
                    sim.trace.append(("has", h))
            elif k == "get":
                try:
                    sm = op[1]["smallest"]
                    if sm and sim.pack.iterative and not isinstance(css.ruledb, RuleDBForest):
                        sm = False
                    spec = css.get_specification(minimization_time_limit=op[1]["min_time"], smallest=sm)
                    ctx.ev("get", "spec", spec.number_of_rules())
                    result = "spec"
                    on_spec(spec, "get")
                except SpecificationNotFound:
                    ctx.ev("get", "notfound")
            elif k == "status":
                # status() is not part of any listed property: it is called because real
                # clients call it between slices (it reads the clock and touches every
                # component), but what it returns or raises is not judged (DESIGN.md 8.3)
                try:
                    css.status(elaborate=op[1])
                    ctx.ev("status")
                except (IndexError, ValueError):
                    ctx.ev("status", "raised")
                    ctx.probe("status_raised_out_of_scope")
            elif k == "restart":
                extra = sim.mirrors.objects() if sim.mirrors is not None else ()
                restored = pickle_roundtrip((css,) + tuple(extra), "C17")
                css2 = restored[0]
                if sim.mirrors is not None:
                    sim.mirrors.restored(css2, restored[1:])
                ctx.fault("pickle_restart")
                ctx.ev("restart", sim.packets)
                if any(getattr(css.classqueue, "curr_level", ())):
                    ctx.probe("restart_mid_level")
                if sim.focus in ("C17", "ALL") and not css2 == css:
                    raise Violation("C17:restored-unequal", f"searcher != its pickle round trip (rule db {R['config']['ruledb']}, after {sim.packets} packets)")
                sim.searcher = css = css2
            else:
                raise ValueError(k)
        except PacketCap:
            sim.armed = None
            ctx.probe("packet_cap")
            return "capped"
    sim.check_last_packet()
    return result


def install(sim):
    WW.CURRENT_RNG = sim.rng
    return seams.Installed(sim.clock, sim.rng)


def execute_search(R, ctx, focus):
    sim = Sim(R, ctx, focus)
    start = sim.world_class
    order_seed = [R["order_seed"]]
    n_specs = [0]
    kinds = set()

    def on_spec(spec, how):
        n_specs[0] += 1
        sim.specs.append(spec)
        if focus == "C17":
            kinds.update(specval.check_structure(spec, start, sim.allowed, ctx, tag="C02"))
        if focus == "C11":
            check_forest_extraction(sim, ctx, start)
        if focus in ("C02", "ALL"):
            kinds.update(specval.check_structure(spec, start, sim.allowed, ctx, tag="C02"))
            # the *list* of rules, before CombinatorialSpecification folds it into a
            # dict (a second rule for one class would be overwritten silently)
            db = sim.searcher.ruledb
            if isinstance(db, RuleDBForest):
                rules = list(db.get_specification_rules())
            else:
                rules = list(db.get_specification_rules(minimization_time_limit=0, smallest=False))
            from comb_spec_searcher import CombinatorialSpecification

            spec2 = CombinatorialSpecification(start, list(rules))
            kinds.update(specval.check_structure(spec2, start, sim.allowed, ctx, rules_list=rules, tag="C02"))
        if focus in ("C01", "ALL", "C17"):
            order_seed[0] += 1
            specval.check_counts(spec, start, R["nmax"], order_seed[0], ctx, tag="C01")

    with install(sim):
        if focus == "C14":
            from . import c14

            sim.mirrors = c14.Mirrors(sim, R, ctx)
        try:
            sim.build()
        except PacketCap:
            ctx.probe("packet_cap")
            return
        result = exec_ops(sim, R, ctx, on_spec)
        if focus == "C14" and sim.mirrors is not None:
            sim.mirrors.finish()
        css = sim.searcher
        ctx.sim_seconds = sim.clock.elapsed()
        ctx.stat("packets", sim.packets)
        ctx.stat("rule_adds", sim.adds)
        ctx.stat("specs", n_specs[0])
        ctx.stat("classes", len(css.classdb.label_to_info))
        ctx.probe("result_" + result)
        ctx.probe("db_" + R["config"]["ruledb"])
        if sim.clock.skews:
            ctx.fault("clock_backward_step", sim.clock.skews)
        if sim.clock.escalations:
            ctx.fault("clock_stall_escalation", 1)
        if sim.clock.policy == "jitter":
            ctx.fault("clock_jitter", 1)
        if start.is_empty():
            ctx.probe("empty_start_class")
        if css.ruledb.__class__.__name__.endswith("RuleDB") and css.start_label != css.ruledb.equivdb[css.start_label]:
            ctx.probe("root_not_own_representative")
        ctx.set_interleaving((sim.slices, tuple(f for f in sorted(ctx.faults.items())), sim.packets))
        ctx.set_state(
            (
                R["config"]["ruledb"],
                repr(start),
                sorted(repr(css.classdb.get_class(l)) for l in css.classdb),
                result,
                [sorted(map(repr, s.rules_dict)) for s in sim.specs[:2]],
            )
        )
        rules = max((s.number_of_rules() for s in sim.specs), default=0)
        c11_nontrivial = ctx.nontrivial
        ctx.nontrivial = result == "spec" and rules >= 3 and (bool(ctx.faults) or R.get("fault_free", False))
        if focus == "C11":
            ctx.nontrivial = ctx.nontrivial and c11_nontrivial
        for kd in kinds:
            ctx.probe("rule_form_" + kd)


def check_forest_extraction(sim, ctx, start):
    """C11, layer 'search': the universe recorded by a real forest search."""
    from . import c11
    from comb_spec_searcher.rule_db.forest import ForestRuleExtractor

    css = sim.searcher
    db = css.ruledb
    if not isinstance(db, RuleDBForest):
        return
    tm = db.table_method
    if not hasattr(tm, "_rules"):
        ctx.probe("table_internals_unavailable")
        return
    delivered = [(k.parent, tuple(k.children), tuple(k.shifts), k.bucket.name) for k in tm._rules]  # pylint: disable=protected-access
    root = css.start_label
    ext = ForestRuleExtractor(root, db, css.classdb, css.strategy_pack)
    ext.check()
    needed = [(k.parent, tuple(k.children), tuple(k.shifts), k.bucket.name) for k in ext.needed_rules]
    c11.check_extraction(delivered, needed, root, ctx, tag="C11:")
    nontrivial = ctx.nontrivial
    # each extracted key can be turned back into a concrete rule of the pack with the same key
    rules = list(ext.rules(getattr(db, "_rule_cache", ())))
    keyset = set(delivered)
    for rule in rules:
        # rules() hands equivalences out in their one-child form; the key belongs to the rule it was built from
        keyed = rule.original_rule if type(rule).__name__ == "EquivalenceRule" else rule
        k = keyed.forest_key(css.classdb.get_label, css.classdb.is_empty)
        kk = (k.parent, tuple(k.children), tuple(k.shifts), k.bucket.name)
        if kk not in keyset:
            raise Violation("C11:rule-key-not-inserted", f"extracted rule {rule.comb_class} -> {rule.children} has forest key {kk}, which was never inserted")
        specval.check_rule_genuine(rule, sim.allowed, tag="C11")
    # reverse rules are used only when no choice without them exists - judged on the rules
    # themselves (not on the bucket label of their keys)
    from comb_spec_searcher.strategies.rule import EquivalenceRule, ReverseRule
    from ..ref import lfp as L

    def is_rev(r):
        # reverse forms that are equivalences count as equivalences (the library files them in
        # the EQUIV bucket by design); only proper complement / quotient rules are meant
        return isinstance(r, ReverseRule) and not isinstance(r, EquivalenceRule) and not r.is_equivalence()

    rev_used = [r for r in rules if is_rev(r)]
    if rev_used:
        ctx.probe("reverse_rule_extracted")
        if L.pumps(sim.forward_triples, root):
            raise Violation(
                "C11:unnecessary-reverse-rule",
                f"a reverse rule ({rev_used[0].comb_class} -> {rev_used[0].children}) was handed out although the forward rules recorded so far are productive for the start class on their own",
            )
    nonempty_needed = [k for k in needed if not (k[1] == () and WW.truth_empty(css.classdb.get_class(k[0])))]
    if len(rules) != len(nonempty_needed):
        raise Violation("C11:rules-vs-keys", f"{len(nonempty_needed)} non-empty extracted keys but {len(rules)} concrete rules")
    if not db.reverse and any(k[3] == "REVERSE" for k in delivered):
        raise Violation("C11:reverse-key-although-disabled", "reverse keys inserted with reverse=False")
    ctx.nontrivial = nontrivial
    ctx.stat("forest_extractions")


def simplify_search(R):
    """World / config simplifications for the shrinker."""
    w = R["world"]
    for i in range(len(w["patterns"])):
        yield dict(R, world=dict(w, patterns=w["patterns"][:i] + w["patterns"][i + 1 :]))
    for i, p in enumerate(w["patterns"]):
        if len(p) > 1:
            yield dict(R, world=dict(w, patterns=w["patterns"][:i] + [p[:-1]] + w["patterns"][i + 1 :]))
    if w["tracked"]:
        yield dict(R, world=dict(w, tracked=w["tracked"][:-1]))
    if w["prefix"]:
        yield dict(R, world=dict(w, prefix=w["prefix"][:-1]))
    if len(w["alphabet"]) > 2 and all(l < 2 for p in w["patterns"] for l in p) and all(l < 2 for l in w["prefix"]):
        yield dict(R, world=dict(w, alphabet=[0, 1]))
    if w["compress"]:
        yield dict(R, world=dict(w, compress=False))
    if w.get("marks", 1) > 1:
        yield dict(R, world=dict(w, marks=1))
    pk = R["pack"]
    for sect in ("inferral", "initial", "symmetries", "ver"):
        for i in range(len(pk[sect])):
            if sect == "ver" and len(pk[sect]) == 1:
                continue
            yield dict(R, pack=dict(pk, **{sect: pk[sect][:i] + pk[sect][i + 1 :]}))
    if len(pk["expansion"]) > 1:
        yield dict(R, pack=dict(pk, expansion=pk["expansion"][:1]))
        yield dict(R, pack=dict(pk, expansion=pk["expansion"][1:]))
    for sect in ("inferral", "initial", "symmetries"):
        for i, s in enumerate(pk[sect]):
            if s.get("mask") is not None or s.get("lazy") or s.get("split") or s.get("merge"):
                ns = dict(s, mask=None, lazy=False)
                for flag in ("split", "merge"):
                    if flag in ns:
                        ns[flag] = False
                yield dict(R, pack=dict(pk, **{sect: pk[sect][:i] + [ns] + pk[sect][i + 1 :]}))
    for j, st in enumerate(pk["expansion"]):
        for i, s in enumerate(st):
            if s.get("mask") is not None or s.get("lazy") or s.get("dup") or s.get("foreign") or s.get("drop"):
                ns = dict(s, mask=None, lazy=False)
                if "drop" in ns:
                    ns["drop"] = False
                if "dup" in ns:
                    ns["dup"] = False
                    ns["foreign"] = None
                nst = st[:i] + [ns] + st[i + 1 :]
                yield dict(R, pack=dict(pk, expansion=pk["expansion"][:j] + [nst] + pk["expansion"][j + 1 :]))
            if s["t"] == "ExpandFactory":
                ns = {"t": "Expand", "d": s["ds"][0], "mask": s.get("mask"), "lazy": False}
                nst = st[:i] + [ns] + st[i + 1 :]
                yield dict(R, pack=dict(pk, expansion=pk["expansion"][:j] + [nst] + pk["expansion"][j + 1 :]))
    if pk.get("iterative"):
        yield dict(R, pack=dict(pk, iterative=False))
    cfg = R["config"]
    if cfg["expand_verified"]:
        yield dict(R, config=dict(cfg, expand_verified=False))
    if cfg["debug"]:
        yield dict(R, config=dict(cfg, debug=False))
    if cfg["ruledb"] != "default":
        yield dict(R, config=dict(cfg, ruledb="default"))
    ck = R["clock"]
    if ck["policy"] != "frozen" or ck["skew_p"]:
        yield dict(R, clock=dict(ck, policy="frozen", skew_p=0.0, stall=64))
    rg = R["rng"]
    if rg["policy"] != "first":
        yield dict(R, rng=dict(rg, policy="first"))
    # simplify auto ops
    for i, op in enumerate(R["ops"]):
        if op[0] == "auto":
            a = op[1]
            if a.get("budgets") or a.get("tail_budget") or a.get("status_update") or a.get("smallest") or a.get("perc") != 1:
                na = dict(a, budgets=[], tail_budget=None, status_update=None, smallest=False, perc=1)
                yield dict(R, ops=R["ops"][:i] + [["auto", na]] + R["ops"][i + 1 :])
            if a.get("budgets"):
                na = dict(a, budgets=a["budgets"][:-1])
                yield dict(R, ops=R["ops"][:i] + [["auto", na]] + R["ops"][i + 1 :])
    if R["nmax"] > 3:
        yield dict(R, nmax=R["nmax"] - 1)
