"""
C11 - forest extraction returns a minimal, closed, productive rule set.

FOREST-EXTRACT machine (integer layer): seeded integer universes with random
buckets in which the root pumps (rejection against the reference LFP) are
delivered to a real TableMethod in a seeded order with duplicates; a real
ForestRuleExtractor is built on it.  Oracle on ``needed_rules``: subset of the
delivered keys, pairwise distinct left-hand sides, closed, productive for the
root (reference LFP), 1-minimal, reverse keys only if unavoidable.

The second layer (universes recorded by real searches, key -> concrete rule) is
part of the SEARCH-based checks (dsim/props/search_common.py) and is reported
under this property by the forest runs of this module (layer 'search').
"""

import random

from ..core import HarnessError, Violation
from ..ref import lfp as L
from .. import seams  # noqa: F401
from . import c03

from comb_spec_searcher.rule_db.forest import ForestRuleExtractor, TableMethod
from comb_spec_searcher.typing import ForestRuleKey, RuleBucket

ID = "C11"
QUICK_RUNS = 15000
CHUNK = 100
THOROUGH_BUDGET_S = 600
LEVEL = "exploration"
RULE = (
    "layer 'int': integer universes (<=12 labels, <=25 rules, arity 0-4, shifts in a per-run range within [-3,3], random "
    "buckets) re-drawn until the root pumps in the reference LFP, delivered in a seeded order with duplicates; "
    "layer 'search': universes recorded by real forest-DB searches in the words world under a simulated clock; "
    "non-trivial = the extracted set has >= 2 rules and is a proper subset of the pumping sub-universe; distinct = distinct (rule "
    "multiset, order)"
)
REAL_VS_STUB = {
    "real": ["rule_db.forest.ForestRuleExtractor", "rule_db.forest.TableMethod", "layer search: the whole searcher with RuleDBForest"],
    "stub": ["layer int: rule keys are synthetic; classdb/pack are unused placeholders"],
}
ASSUMPTIONS = ["reference LFP (dsim/ref/lfp.py) decides productivity and minimality"]


def gen(rng, tier):
    if rng.random() < SEARCH_FRACTION:
        from . import search_common as S

        R = S.gen_search(rng, tier, ruledb=rng.choice(["forest", "forest", "forest_noreverse"]), flavour="C11")
        R["layer"] = "search"
        return R
    big = tier == "thorough"
    for _ in range(200):
        n_labels = rng.randint(1, 14 if big else 12)
        if rng.random() < 0.5:
            n_labels = min(n_labels, rng.randint(1, 6))
        n_rules = rng.randint(1, 40 if big else 25)
        lo, hi = rng.choice([(0, 1), (0, 3), (-1, 1), (-2, 2), (-3, 3)])
        rules = c03.gen_rules(rng, n_labels, n_rules, lo, hi)
        root = rng.randrange(n_labels)
        if L.pumps([(r[0], tuple(r[1]), tuple(r[2])) for r in rules], root):
            break
    else:
        rules, root = [[0, [], [], "VERIFICATION"]], 0
    order = list(range(len(rules)))
    rng.shuffle(order)
    ops = []
    for i in order:
        ops.append(["ins", i])
        if rng.random() < 0.15:
            ops.append(["ins", rng.choice(order[: order.index(i) + 1])])
    return {"layer": "int", "rules": rules, "root": root, "ops": ops}


SEARCH_FRACTION = 0.25


class _DB:
    def __init__(self, tm):
        self.table_method = tm


def execute(R, ctx):
    if R.get("layer") == "search":
        from . import search_common as S

        return S.execute_search(R, ctx, focus="C11")
    rules = R["rules"]
    root = R["root"]
    tm = TableMethod()
    delivered = []
    for op in R["ops"]:
        if op[1] >= len(rules):
            continue
        r = rules[op[1]]
        tm.add_rule_key(c03.key_of(r))
        delivered.append((r[0], tuple(r[1]), tuple(r[2]), r[3]))
    triples = [d[:3] for d in delivered]
    if not L.pumps(triples, root):
        # after shrinking the root may not pump any more: nothing to extract
        ctx.stat("root_not_pumping")
        ctx.set_state(("nopump", sorted(map(repr, delivered))))
        return
    if not tm.is_pumping(root):
        raise Violation("table-disagrees", f"reference says root {root} pumps, TableMethod does not; rules={delivered}")
    ext = ForestRuleExtractor(root, _DB(tm), None, None)
    ext.check()
    needed = [(k.parent, tuple(k.children), tuple(k.shifts), k.bucket.name) for k in ext.needed_rules]
    check_extraction(delivered, needed, root, ctx)
    ctx.set_state((sorted(map(repr, delivered)), [op[1] for op in R["ops"]]))


def check_extraction(delivered, needed, root, ctx, tag=""):
    """Oracle on the extracted keys (used by both layers)."""
    triples = [d[:3] for d in delivered]
    ctx.ev("needed", needed)
    pool = list(delivered)
    for k in needed:
        if k in pool:
            pool.remove(k)
        else:
            raise Violation(tag + "not-a-subset", f"extracted key {k} was not delivered (or used more often than delivered); delivered={delivered}")
    lhs = [k[0] for k in needed]
    if len(set(lhs)) != len(lhs):
        raise Violation(tag + "duplicate-lhs", f"two extracted rules share a left-hand side: {needed}")
    mentioned = set(lhs)
    for k in needed:
        mentioned.update(k[1])
    if root not in lhs:
        raise Violation(tag + "root-without-rule", f"root {root} has no extracted rule: {needed}")
    if mentioned - set(lhs):
        raise Violation(tag + "not-closed", f"labels {sorted(mentioned - set(lhs))} are mentioned but have no rule: {needed}")
    nt = [k[:3] for k in needed]
    if not L.pumps(nt, root):
        raise Violation(tag + "not-productive", f"root {root} does not pump in the extracted rules {needed}")
    f = L.lfp(nt)
    for l in mentioned:
        if f.get(l, 0) != L.INF:
            raise Violation(tag + "class-not-productive", f"class {l} of the extracted set is not infinite in its own LFP: {needed}")
    for i in range(len(nt)):
        rest = nt[:i] + nt[i + 1 :]
        if L.pumps(rest, root):
            raise Violation(tag + "not-minimal", f"rule {needed[i]} can be removed and the root still pumps: {needed}")
    no_rev = [d[:3] for d in delivered if d[3] != "REVERSE"]
    used_rev = [k for k in needed if k[3] == "REVERSE"]
    if used_rev:
        ctx.probe("reverse_rule_in_extraction")
        if L.pumps(no_rev, root):
            raise Violation(tag + "unnecessary-reverse", f"reverse keys {used_rev} used although the root pumps without any reverse rule; delivered={delivered}")
    elif any(d[3] == "REVERSE" for d in delivered):
        ctx.probe("reverse_available_but_avoided")
    inf = {l for l, v in L.lfp(triples).items() if v == L.INF}
    sub = [d for d in delivered if d[0] in inf and inf.issuperset(d[1])]
    try:
        L.lfp_checked(triples)
    except L.CapDisagreement as e:
        raise HarnessError(str(e)) from e
    ctx.stat("needed_rules", len(needed))
    ctx.stat("subuniverse_rules", len(sub))
    ctx.nontrivial = len(needed) >= 2 and len(needed) < len(set(sub))


def simplify(R):
    if R.get("layer") == "search":
        from . import search_common as S

        yield from S.simplify_search(R)
        return
    yield from c03.simplify(R)
