"""
C02 - returned specifications are closed, one-rule-per-class, genuine and productive.

Same simulated searches as C01.  Every specification handed back (and the raw
rule list of get_specification_rules, before it is folded into a dictionary) is
checked by the independent validator of dsim/ref/specval.py: root has a rule,
left-hand sides distinct, every non-empty right-hand-side class has a rule,
lazily created empty rules only for truly empty classes, every rule form is
what a pack strategy really produces (fresh re-application), and the rule set is
productive by the reference least fixed point over (parent, children, shifts).
"""
from . import search_common as S

ID = "C02"
QUICK_RUNS = 6000
CHUNK = 20
THOROUGH_BUDGET_S = 900
WATCHDOG = 45.0
LEVEL = "exploration"
RULE = (
    "one run = (words world: alphabet 2-3, <=4 patterns of length <=4, prefix <=2, 0-2 tracked statistics) x (pack: masks, lazy/eager "
    "does-not-apply, inferral/initial equivalence strategies, factories with foreign parents and duplicates, fiat verification, symmetry, "
    "iterative) x (rule DB) x (clock policy, slice budgets, interrupts, restarts, client call sequence) x (random-source policy); "
    "non-trivial = a specification with >= 3 rules was handed back and either a fault fired or the run is a designated fault-free run; "
    "distinct = distinct digest of (rule DB, start class, final class universe, result, classes of the returned specifications)"
)
REAL_VS_STUB = {
    "real": ["the whole comb_spec_searcher package on the search/extract/count path", "pickle", "zlib", "sympy (Quotient)", "psutil/pympler when status is requested"],
    "stub": ["clock (SimClock at the module-level `time` seams)", "random source (SimRandom at the imported names)", "classes, objects, strategies, packs: the words world (dsim/worlds/words.py)"],
}
ASSUMPTIONS = [
    "ground truth is brute-force enumeration of alphabet^n (n <= 6)",
    "the words world honours the strategy contracts; every rule it produces is checked to be a bijection by an independent self-check",
]


def gen(rng, tier):
    return S.gen_search(rng, tier, flavour=ID)


def execute(R, ctx):
    return S.execute_search(R, ctx, focus=ID)


simplify = S.simplify_search
