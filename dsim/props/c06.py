"""
C06 - equivalence classes are exactly the strongly connected components.

EQUIV machine: a real EquivalenceDB is driven by a seeded history of
add_two_way_edge / add_one_way_edge / set_verified / connect_cycles / pickle
restart, interleaved with queries.  Reference: a plain directed graph.

Exactness (iff) is required at every query whose most recent mutation was
connect_cycles (the property's own qualifier).  At all other times only what
the statement still implies is required: never over-approximate (equivalent =>
mutually reachable), two-way connectivity is merged at once, a marked label is
reported verified, a reported-verified label has a marked label in its true
component.
"""

import pickle

from ..core import Violation, pickle_roundtrip
from ..ref.graph import reach_closure
from .. import seams  # noqa: F401  (sets up sys.path and mutes logging)

from comb_spec_searcher.equiv_db import EquivalenceDB

ID = "C06"
QUICK_RUNS = 40000
CHUNK = 250
THOROUGH_BUDGET_S = 600
LEVEL = "exploration"
RULE = (
    "histories of <=40 (thorough <=120) ops over <=12 (thorough <=14) labels drawn by a seeded "
    "swarm generator (per-run op weights, one-way-only / two-way-heavy mixes, duplicates, self loops); "
    "non-trivial = at least one connect_cycles followed by a query, and the final graph has a "
    "strongly connected component of size >= 2; distinct = distinct final (partition, verified "
    "classes, edge set)"
)
REAL_VS_STUB = {
    "real": ["comb_spec_searcher.equiv_db.EquivalenceDB", "pickle"],
    "stub": ["history generator (the searcher / rule DB that normally feeds the edges)"],
}
ASSUMPTIONS = [
    "exact iff is demanded only when the latest mutation was connect_cycles",
    "find_path raising KeyError for non-equivalent labels is documented behaviour",
]

MUT = ("two", "one", "ver", "cc", "restart")


def gen(rng, tier):
    big = tier == "thorough"
    n = rng.randint(2, 14 if big else 12)
    if rng.random() < 0.5:
        n = min(n, rng.randint(2, 6))  # small label sets close cycles often
    n_ops = rng.randint(3, 120 if big else 40)
    w = {
        "two": rng.choice([0, 1, 1, 3]),
        "one": rng.choice([1, 2, 4, 6]),
        "ver": rng.choice([0, 1, 2]),
        "cc": rng.choice([1, 2, 4]),
        "restart": rng.choice([0, 0, 1]),
        "q": rng.choice([1, 3, 6]),
        "sweep": rng.choice([0, 1, 2]),
    }
    kinds = [k for k, v in w.items() for _ in range(v)]
    ops = []
    pairs = []
    for _ in range(n_ops):
        k = rng.choice(kinds)
        if k in ("two", "one"):
            if pairs and rng.random() < 0.15:
                a, b = rng.choice(pairs)  # duplicate / reversed duplicate
                if rng.random() < 0.5:
                    a, b = b, a
            else:
                a, b = rng.randrange(n), rng.randrange(n)  # self loops allowed
            pairs.append((a, b))
            ops.append([k, a, b])
        elif k == "ver":
            ops.append(["ver", rng.randrange(n)])
        elif k == "cc":
            ops.append(["cc"])
            if rng.random() < 0.5:
                ops.append(["sweep"])
        elif k == "restart":
            ops.append(["restart"])
        elif k == "sweep":
            ops.append(["sweep"])
        else:
            q = rng.choice(["q_eq", "q_eq", "q_ver", "q_path", "q_rep", "q_set"])
            if q in ("q_eq", "q_path"):
                ops.append([q, rng.randrange(n), rng.randrange(n)])
            else:
                ops.append([q, rng.randrange(n)])
    ops.append(["cc"])
    ops.append(["sweep"])
    return {"n": n, "ops": ops, "base": rng.choice([0, 0, 0, 1000, 100000, -300])}


class Model:
    def __init__(self):
        self.edges = set()
        self.two = set()
        self.marked = set()
        self.known = set()
        self._reach = None
        self._reach2 = None

    def nodes(self):
        return set(self.known)

    def reach(self):
        if self._reach is None:
            self._reach = reach_closure(self.nodes(), self.edges)
        return self._reach

    def reach2(self):
        if self._reach2 is None:
            self._reach2 = reach_closure(self.nodes(), self.two)
        return self._reach2

    def touch(self, *labels):
        for l in labels:
            if l not in self.known:
                self.known.add(l)
                self._reach = self._reach2 = None

    def add_edge(self, a, b, two):
        if a != b:
            self.edges.add((a, b))
            if two:
                self.edges.add((b, a))
                self.two.add((a, b))
                self.two.add((b, a))
        self._reach = self._reach2 = None

    def mutual(self, a, b):
        r = self.reach()
        return b in r[a] and a in r[b]

    def scc(self, a):
        r = self.reach()
        return {v for v in r[a] if a in r[v]}


def execute(R, ctx):
    db = EquivalenceDB()
    m = Model()
    exact = True  # no edges yet: trivially exact
    cc_then_query = False
    n = R["n"]

    def check_eq(a, b):
        m.touch(a, b)
        got = db.equivalent(a, b)
        ctx.ev("eq", a, b, got)
        want = m.mutual(a, b)
        if got and not want:
            raise Violation("eq-unsound", f"equivalent({a},{b}) is True but they are not mutually reachable")
        if exact and want and not got:
            raise Violation("eq-incomplete", f"after connect_cycles equivalent({a},{b}) is False but they are mutually reachable")
        if not got and b in m.reach2()[a]:
            raise Violation("eq-two-way-lost", f"{a} and {b} are connected by two-way edges but not equivalent")
        return got

    def check_ver(a):
        m.touch(a)
        got = db.is_verified(a)
        ctx.ev("ver?", a, got)
        comp = m.scc(a)
        if got and not comp & m.marked:
            raise Violation("verified-unsound", f"is_verified({a}) but no label of its component was marked")
        if a in m.marked and not got:
            raise Violation("verified-lost", f"label {a} was marked verified but is_verified({a}) is False")
        if exact and comp & m.marked and not got:
            raise Violation("verified-incomplete", f"after connect_cycles label {a} is in a component with a marked label but is not verified")
        two_comp = m.reach2()[a]
        if two_comp & m.marked and not got:
            raise Violation("verified-lost-on-merge", f"{a} is two-way connected to a marked label but not verified")

    def check_path(a, b):
        m.touch(a, b)
        eq = db.equivalent(a, b)
        try:
            path = db.find_path(a, b)
        except KeyError:
            ctx.ev("path", a, b, "KeyError")
            if eq:
                raise Violation("path-missing", f"equivalent({a},{b}) but find_path raised KeyError")
            return
        ctx.ev("path", a, b, tuple(path))
        if not eq:
            raise Violation("path-for-nonequivalent", f"find_path({a},{b}) returned {path} for non-equivalent labels")
        if not path or path[0] != a or path[-1] != b:
            raise Violation("path-endpoints", f"find_path({a},{b}) returned {path}")
        for u, v in zip(path, path[1:]):
            if (u, v) not in m.edges:
                raise Violation("path-edge", f"find_path({a},{b}) = {path} uses {u}->{v} which was never recorded")

    def check_rep(a):
        m.touch(a)
        r = db[a]
        ctx.ev("rep", a, r)
        if not m.mutual(a, r):
            raise Violation("rep-unsound", f"representative of {a} is {r}, not in its component")
        if db[r] != r:
            raise Violation("rep-not-idempotent", f"db[db[{a}]] != db[{a}]")

    def check_set(a):
        if a not in m.known:
            # equivalent_set() on a label the database has never seen is outside
            # the property (it is not one of its observation points and the
            # library never calls it); see DESIGN.md 8.3
            ctx.stat("q_set_skipped_unknown_label")
            return
        got = set(db.equivalent_set(a))
        ctx.ev("set", a, tuple(sorted(got)))
        comp = m.scc(a)
        if not got <= comp:
            raise Violation("set-unsound", f"equivalent_set({a}) = {sorted(got)} not within component {sorted(comp)}")
        if a not in got:
            raise Violation("set-misses-self", f"equivalent_set({a}) = {sorted(got)}")
        if exact and got != comp & m.known:
            raise Violation("set-incomplete", f"after connect_cycles equivalent_set({a}) = {sorted(got)}, component is {sorted(comp & m.known)}")

    # labels are shifted by a per-run offset; every use computes a fresh int object (labels beyond CPython's
    # small-integer cache are equal but not identical from one call to the next, as after a pickle restart)
    base = R.get("base", 0)
    ops = [[op[0]] + [base + x for x in op[1:]] for op in R["ops"]]
    for op in ops:
        k = op[0]
        if k in ("two", "one"):
            a, b = op[1], op[2]
            m.touch(a, b)
            if k == "two":
                # probe: verified flag carried by the lighter root
                ra, rb = db[a], db[b]
                weights, vroots = getattr(db, "weights", None), getattr(db, "verified_roots", None)
                if ra != rb and weights is not None and vroots is not None:
                    wa, wb = weights[ra], weights[rb]
                    light = ra if (wa, ra) < (wb, rb) else rb
                    if light in vroots:
                        ctx.probe("verified_on_lighter_root")
                db.add_two_way_edge(a, b)
            else:
                if db.equivalent(a, b) and a != b:
                    ctx.probe("one_way_inside_component")
                elif len(m.scc(a)) > 1 or len(m.scc(b)) > 1:
                    ctx.probe("cross_edge_into_merged_component")
                db.add_one_way_edge(a, b)
            m.add_edge(a, b, k == "two")
            ctx.ev(k, a, b)
            if a != b:
                exact = False
            if a == b:
                ctx.probe("self_loop")
        elif k == "ver":
            m.touch(op[1])
            db.set_verified(op[1])
            m.marked.add(op[1])
            ctx.ev("ver", op[1])
        elif k == "cc":
            before = {a: db[a] for a in sorted(m.known)}
            db.connect_cycles()
            ctx.ev("cc")
            exact = True
            merged = any(
                db[a] == db[b] and before[a] != before[b]
                for a in before
                for b in before
                if a < b
            )
            if merged:
                ctx.probe("cycle_closed_by_connect_cycles")
                # did the cycle need one-way edges only?
                if any(
                    db[a] == db[b] and before[a] != before[b] and b not in m.reach2()[a]
                    for a in before
                    for b in before
                    if a < b
                ):
                    ctx.probe("cycle_through_one_way_edges")
        elif k == "restart":
            db2 = pickle_roundtrip(db, "C06")
            if not db2 == db:
                raise Violation("restart-unequal", "EquivalenceDB != its pickle round trip")
            db = db2
            ctx.fault("pickle_restart")
            ctx.ev("restart")
        elif k == "q_eq":
            check_eq(op[1], op[2])
        elif k == "q_ver":
            check_ver(op[1])
        elif k == "q_path":
            check_path(op[1], op[2])
        elif k == "q_rep":
            check_rep(op[1])
        elif k == "q_set":
            check_set(op[1])
        elif k == "sweep":
            labels = sorted(m.known)
            for a in labels:
                check_ver(a)
                check_rep(a)
                for b in labels:
                    if check_eq(a, b) and (a + b) % 3 == 0:
                        check_path(a, b)
            reps = {}
            for a in labels:
                reps.setdefault(db[a], set()).add(a)
            if exact:
                for r, cls in reps.items():
                    if cls != m.scc(r) & m.known:
                        raise Violation("partition-mismatch", f"class of {r} is {sorted(cls)}, component is {sorted(m.scc(r) & m.known)}")
        else:
            raise ValueError(k)
        if k.startswith("q_") or k == "sweep":
            if exact and m.edges:
                cc_then_query = True
                ctx.stat("exact_queries")
            else:
                ctx.stat("inexact_queries")

    labels = sorted(m.known)
    part = sorted({tuple(sorted(m.scc(a) & m.known)) for a in labels})
    ctx.set_state((part, sorted(m.marked), sorted(m.edges)))
    ctx.nontrivial = cc_then_query and any(len(p) > 1 for p in part)
    ctx.stat("ops", len(R["ops"]))
    _ = n


def simplify(R):
    """Smaller labels."""
    n = R["n"]
    if n > 2:
        # merge the highest label into a lower one
        for tgt in range(n - 1):
            c = dict(R)
            c["n"] = n - 1
            c["ops"] = [[x if (i == 0 or x != n - 1) else tgt for i, x in enumerate(op)] for op in R["ops"]]
            yield c
