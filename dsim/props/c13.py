"""
C13 - the parallel specification finder is total and its output is a matched pair.

PARALLEL harness.  The property's own quantifier is over inputs and
configurations; what simulation adds - and the reason it is claimed - is that the
two arguments are stateful searchers, and the states in which they can be handed
over are produced by schedules: fresh, after j levels, after a time-limit
interrupt at packet k, after a pickle restart.  Two words-world searchers
(default rule DB, atom-only verification as the finder requires; optional
inferral, one-way / two-way equivalence and symmetry strategies so that a start
label is not its own representative; the second class is a letter-renamed, equal
or unrelated variant of the first) go through a seeded pre-expansion prefix with
faults and are then handed to ParallelSpecFinder or EqPathParallelSpecFinder.

Oracle: no exception; the result is None or a pair; each member passes the C01
and C02 validators for its own start class; Isomorphism.check holds in both
directions.  The documented ValueError("No specifications were found") is
accepted only if an ordinary exhaustive search of the same class finds none.
"""
import pickle

from ..clock import SimClock
from ..core import Violation, pickle_roundtrip
from ..ref import specval
from ..rng import SimRandom
from . import search_common as S
from .. import seams
from ..worlds import words as WW

from comb_spec_searcher import CombinatorialSpecificationSearcher
from comb_spec_searcher.bijection import EqPathParallelSpecFinder, ParallelSpecFinder
from comb_spec_searcher.exception import ExceededMaxtimeError, NoMoreClassesToExpandError, SpecificationNotFound
from comb_spec_searcher.isomorphism import Isomorphism

ID = "C13"
QUICK_RUNS = 20000
CHUNK = 20
THOROUGH_BUDGET_S = 900
WATCHDOG = 120.0
LEVEL = "exploration"
RULE = (
    "one run = (class 1, pack 1) x (class 2 = renamed / equal / unrelated variant, pack 2) x finder variant x per-searcher hand-over "
    "state (fresh, levels, time-limit interrupt at packet k, restart); non-trivial = a pair was returned and at least one searcher "
    "was not fresh or at least one start label was not its own representative; distinct = distinct digest of (classes, packs, "
    "variant, result, classes of the returned specifications)"
)
REAL_VS_STUB = {
    "real": ["bijection.ParallelSpecFinder / EqPathParallelSpecFinder / ParallelInfo", "specification_extrator", "isomorphism.Isomorphism", "the searchers that are handed over"],
    "stub": ["clock, random source, words world"],
}
ASSUMPTIONS = ["the input dimension dominates this property; runs with a non-fresh hand-over state are counted separately (probe handover_not_fresh)"]

CAP = 400


class Cap(BaseException):
    pass


def rename(world, perm):
    m = lambda l: perm[l] if l < len(perm) else l  # noqa: E731
    return dict(
        world,
        patterns=[[m(l) for l in p] for p in world["patterns"]],
        prefix=[m(l) for l in world["prefix"]],
        tracked=[m(l) for l in world["tracked"]],
        alphabet=sorted(m(l) for l in world["alphabet"]),
    )


def gen_pack13(rng, world):
    pk = {
        "initial": [{"t": "RemoveFront", "mask": None, "lazy": rng.random() < 0.2}],
        "inferral": [],
        "expansion": rng.choice(
            [
                [[{"t": "Expand", "d": 1, "mask": None, "lazy": False}]],
                [[{"t": "Expand", "d": 2, "mask": None, "lazy": rng.random() < 0.2}]],
                [[{"t": "Expand", "d": 1, "mask": None, "lazy": False}], [{"t": "Expand", "d": 2, "mask": None, "lazy": False}]],
                [[{"t": "Expand", "d": 1, "mask": None, "lazy": False}, {"t": "Expand", "d": 2, "mask": None, "lazy": False}]],
                [[{"t": "Expand", "d": 2, "mask": None, "lazy": False}, {"t": "Expand", "d": 1, "mask": None, "lazy": False}]],
            ]
        ),
        "ver": [{"t": "WordAtom"}] if world["tracked"] or rng.random() < 0.5 else [{"t": "AtomStrategy"}],
        "symmetries": [],
        "iterative": False,
    }
    if not world["patterns"] and rng.random() < 0.6:
        pk["initial"].append({"t": "SplitZeros"})
    if rng.random() < 0.3:
        pk["initial"][0]["split"] = True
    if rng.random() < 0.5:
        pk["inferral"].append({"t": "ReducePatterns", "two_way": rng.random() < 0.75, "lazy": rng.random() < 0.2})
    if world["tracked"] and rng.random() < 0.4:
        pk["inferral"].append({"t": "DropDeadStatistic", "two_way": rng.random() < 0.75})
        pk["inferral"].append({"t": "MergeDuplicateStatistics", "two_way": True})
    if rng.random() < 0.3 and len(world["alphabet"]) >= 2:
        n = len(world["alphabet"])
        perm = list(range(n))
        while perm == list(range(n)):
            rng.shuffle(perm)
        pk["symmetries"].append({"t": "LetterPermutation", "perm": perm})
    return pk


def gen_pre(rng):
    ops = []
    for _ in range(rng.choice([0, 0, 1, 2, 3])):
        k = rng.choice(["level", "auto", "restart", "has"])
        if k == "auto":
            ops.append(["auto", rng.choice([1, 2, 3, 5, 8, 13])])
        else:
            ops.append([k])
    return ops


def gen(rng, tier):
    w1 = S.gen_world(rng, tier)
    if rng.random() < 0.6:
        # make a redundant pattern likely: the root then sits in a non-trivial equivalence class
        if w1["patterns"]:
            base = rng.choice(w1["patterns"])
            w1["patterns"].append(list(base) + [rng.choice(w1["alphabet"])])
    if len(w1["tracked"]) > 1:
        w1["tracked"] = w1["tracked"][:1]
    kind = rng.choice(["renamed", "renamed", "equal", "unrelated"])
    if kind == "renamed":
        n = len(w1["alphabet"])
        perm = list(range(n))
        rng.shuffle(perm)
        w2 = rename(w1, perm)
    elif kind == "equal":
        w2 = dict(w1)
    else:
        w2 = S.gen_world(rng, tier)
        w2["tracked"] = w2["tracked"][:1]
    p1 = gen_pack13(rng, w1)
    if w2["tracked"]:
        p1["ver"] = [{"t": "WordAtom"}]  # the library's AtomStrategy refuses classes with statistics
    r = rng.random()
    if r < 0.4:
        p2 = dict(p1)
        if kind == "renamed" and p1["symmetries"]:
            p2 = dict(p1, symmetries=[])
    elif r < 0.7:
        # the same pack with seeded applicability masks: the two universes then offer different
        # subsets of rules for corresponding classes, so the finder has to choose and backtrack
        def masked(st):
            return dict(st, mask=[rng.randrange(1000), rng.choice([50, 70, 85]), 6])

        p2 = dict(p1, expansion=[[masked(st) for st in sets] for sets in p1["expansion"]], symmetries=[])
        if rng.random() < 0.5:
            p1 = dict(p1, expansion=[[masked(st) for st in sets] for sets in p1["expansion"]])
    else:
        p2 = gen_pack13(rng, w2)
    return {
        "w1": w1,
        "w2": w2,
        "p1": p1,
        "p2": p2,
        "kind": kind,
        "pre1": gen_pre(rng),
        "pre2": gen_pre(rng),
        "variant": rng.choice(["plain", "eqpath"]),
        "clock": {"policy": "frozen", "seed": rng.randrange(1 << 30), "stall": 64, "skew_p": 0.0},
        "rng": {"policy": rng.choice(["seeded", "first", "last"]), "seed": rng.randrange(1 << 30)},
        "nmax": 5,
        "order_seed": rng.randrange(1 << 30),
    }


def equivalence_chain(spec):
    """True if some equivalence rule of the specification leads to a class whose own
    rule is again an equivalence (the classes in between are visible elsewhere)."""
    for rule in spec.rules_dict.values():
        if rule.is_equivalence() and rule.children:
            nxt = spec.rules_dict.get(rule.children[0])
            if nxt is not None and nxt.is_equivalence():
                return True
    return False


K3_TAG = " [second search: a pair whose two labels already had rules from other pairings was accepted without re-validating its children under the new pairing]"


def _monitored_clean(flag):
    """_clean_descendants with its post-condition checked against an independent computation: exactly the
    labels assigned during the failed attempt are un-assigned.  A diagnosis run in which this does not hold is
    never tagged as K3 (something else is broken)."""

    from comb_spec_searcher import bijection as B

    orig = getattr(B.ParallelSpecFinder, "_clean_descendants", None)
    if orig is None:
        return None, None  # internals renamed: the diagnosis goes without this monitor

    def wrapped(to_clean1, to_clean2, id1, id2, sp1, sp2, rec1, rec2):
        want1 = {k: v for k, v in sp1.items() if k not in to_clean1 and not (k == id1 and not rec1)}
        want2 = {k: v for k, v in sp2.items() if k not in to_clean2 and not (k == id2 and not rec2)}
        r = orig(to_clean1, to_clean2, id1, id2, sp1, sp2, rec1, rec2)
        if dict(sp1) != want1 or dict(sp2) != want2:
            flag.append((id1, id2))
        return r

    return orig, staticmethod(wrapped)


def diagnose(classes, packs, variant="plain"):
    """Classify a finder failure (diagnosis only, never an oracle): re-run the finder's two searches on fresh
    searchers and look at how the second search accepted its pairs.  Returns the tag of known finding K3 when
    the failure is exactly that one, else ''."""
    from collections import defaultdict

    from comb_spec_searcher import bijection as B

    P = B.ParallelSpecFinder
    bad_clean = []
    orig_clean, wrapped_clean = _monitored_clean(bad_clean)
    try:
        searchers = [CombinatorialSpecificationSearcher(c, p) for c, p in zip(classes, packs)]
        f = P(*searchers)
        shortcuts = []
        orig = P._search_matching_info_recursion_base_cases  # pylint: disable=protected-access

        def wrapped(id1, id2, mi, mi1, mi2, sp1, sp2):
            both = id1 in sp1 and id2 in sp2 and sp1[id1] != ()
            r = orig(id1, id2, mi, mi1, mi2, sp1, sp2)
            if both and r == P._VALID:  # pylint: disable=protected-access
                shortcuts.append((id1, id2, sp1[id1], sp2[id2]))
            return r

        P._search_matching_info_recursion_base_cases = staticmethod(wrapped)  # pylint: disable=protected-access
        if wrapped_clean is not None:
            P._clean_descendants = wrapped_clean  # pylint: disable=protected-access
        try:
            mi = defaultdict(dict)
            if not f._find(f._pi1.root_eq_label, f._pi2.root_eq_label, mi, set()):  # pylint: disable=protected-access
                return ""
            sp = f._search_matching_info(mi)  # pylint: disable=protected-access
        finally:
            P._search_matching_info_recursion_base_cases = staticmethod(orig)  # pylint: disable=protected-access
            if orig_clean is not None:
                P._clean_descendants = staticmethod(orig_clean)  # pylint: disable=protected-access
        if bad_clean:
            return ""
        if sp is not None:
            sp1, sp2 = sp

            def bad_below(a, b, seen):
                if (a, b) in seen:
                    return False
                seen.add((a, b))
                ca, cb = sp1.get(a), sp2.get(b)
                if ca is None or cb is None:
                    # a hole in the label maps is never produced by the short-cut: some other defect
                    raise LookupError((a, b))
                if (ca, cb) not in mi[(a, b)]:
                    return True
                return any(bad_below(ca[i], cb[k], seen) for k, i in enumerate(mi[(a, b)][(ca, cb)]))

            for a, b, ra, rb in shortcuts:
                if (ra, rb) not in mi[(a, b)]:
                    return ""  # the short-cut itself accepted an unmatched pair: not K3
                if sp1.get(a) == ra and sp2.get(b) == rb and any(bad_below(ra[i], rb[k], set()) for k, i in enumerate(mi[(a, b)][(ra, rb)])):
                    return K3_TAG
    except Exception:  # pylint: disable=broad-except
        return ""
    if variant == "eqpath":
        return _diagnose_eqpath(classes, packs)
    return ""


def _diagnose_eqpath(classes, packs):
    """The same short-cut in the equivalence-path variant shows as a KeyError: after accepting a pair whose two
    labels are already assigned, _validate_atoms_for_existing_entries walks down the *existing* assignments and
    looks each descendant pair up in the matching information, where a descendant pair that was never
    validated under this pairing is missing.  Tagged only if (a) the lookup that fails is for a descendant
    (not for the accepted pair itself), (b) both labels of that descendant are assigned, and (c) every
    clean-up of the run did exactly what it should."""
    from comb_spec_searcher import bijection as B

    P, E = B.ParallelSpecFinder, B.EqPathParallelSpecFinder
    bad_clean = []
    orig_clean, wrapped_clean = _monitored_clean(bad_clean)
    orig_val = E._validate_atoms_for_existing_entries  # pylint: disable=protected-access
    seen = []

    def wrapped_val(self, id1, id2, sp1, sp2, matching_info, mem):
        c1, c2 = sp1.get(id1), sp2.get(id2)
        if c1 is not None and c2 is not None and not c1 == () == c2 and (id1, id2) not in mem and (c1, c2) not in matching_info[(id1, id2)]:
            seen.append(("descendant" if mem else "top", id1, id2))
        return orig_val(self, id1, id2, sp1, sp2, matching_info, mem)

    try:
        searchers = [CombinatorialSpecificationSearcher(c, p) for c, p in zip(classes, packs)]
        f = E(*searchers)
        if wrapped_clean is not None:
            P._clean_descendants = wrapped_clean  # pylint: disable=protected-access
        E._validate_atoms_for_existing_entries = wrapped_val  # pylint: disable=protected-access
        try:
            f.find()
            return ""
        except KeyError:
            pass
        finally:
            if orig_clean is not None:
                P._clean_descendants = staticmethod(orig_clean)  # pylint: disable=protected-access
            E._validate_atoms_for_existing_entries = orig_val  # pylint: disable=protected-access
    except Exception:  # pylint: disable=broad-except
        return ""
    if bad_clean or not seen or seen[-1][0] != "descendant":
        return ""
    return K3_TAG


def execute(R, ctx):
    clock = SimClock(**R["clock"])
    rng = SimRandom(R["rng"]["policy"], R["rng"]["seed"])
    state = {"packets": 0, "budget": None}

    def listener(kind, *p):
        if kind == "q.next":
            state["packets"] += 1
            ctx.ev("pkt", p[0].label, tuple(map(repr, p[0].strategies)), p[0].inferral)
            clock.event()
            if state["packets"] > CAP:
                raise Cap()
            if state["budget"] is not None:
                state["budget"] -= 1
                if state["budget"] <= 0:
                    state["budget"] = None
                    clock.jump(S.SLICE_JUMP)
        elif kind == "db.add":
            clock.event()

    WW.CURRENT_RNG = rng
    with seams.Installed(clock, rng):
        seams.SINK.listener = listener
        searchers = []
        classes = []
        packs = []
        not_fresh = False
        try:
            for w, p, pre in ((R["w1"], R["p1"], R["pre1"]), (R["w2"], R["p2"], R["pre2"])):
                c = WW.make_class(w)
                pack = WW.make_pack(p)
                css = CombinatorialSpecificationSearcher(c, pack, ruledb=seams.make_ruledb("default"), classqueue=seams.TracingQueue(pack))
                for op in pre:
                    not_fresh = True
                    if op[0] == "level":
                        try:
                            css.do_level()
                        except NoMoreClassesToExpandError:
                            pass
                    elif op[0] == "has":
                        css.has_specification()
                    elif op[0] == "restart":
                        css = pickle_roundtrip(css, "C17")
                        ctx.fault("pickle_restart")
                    else:
                        state["budget"] = op[1]
                        try:
                            css._auto_search_rules(max_expansion_time=S.SLICE_JUMP - 1)  # pylint: disable=protected-access
                        except ExceededMaxtimeError:
                            ctx.fault("time_limit_interrupt")
                        except SpecificationNotFound:
                            pass
                        state["budget"] = None
                classes.append(c)
                packs.append(pack)
                searchers.append(css)
            if not_fresh:
                ctx.probe("handover_not_fresh")
            Finder = ParallelSpecFinder if R["variant"] == "plain" else EqPathParallelSpecFinder
            try:
                finder = Finder(searchers[0], searchers[1])
            except ValueError as e:
                if "No specifications were found" not in str(e):
                    raise
                ctx.probe("documented_no_specification")
                # accepted only if an ordinary search cannot find one either
                for c, pack in zip(classes, packs):
                    fresh = CombinatorialSpecificationSearcher(c, pack, classqueue=seams.TracingQueue(pack))
                    try:
                        fresh.auto_search()
                    except SpecificationNotFound:
                        break
                else:
                    raise Violation("C13:no-specification-claimed", f"the finder says no specification exists but ordinary searches find one for both {classes[0]} and {classes[1]}") from e
                ctx.set_state(("nospec", repr(classes)))
                return
            try:
                res = finder.find()
            except Cap:
                raise
            except Exception as e:  # pylint: disable=broad-except
                import traceback

                where = traceback.extract_tb(e.__traceback__)[-1]
                note = diagnose(classes, packs, R["variant"])
                raise Violation(
                    f"C13:finder-raised-{type(e).__name__}",
                    f"{Finder.__name__}.find() raised {type(e).__name__}: {str(e)[:120]} at {where.name} for {classes[0]} / {classes[1]}{note}",
                ) from e
        except Cap:
            ctx.probe("packet_cap")
            ctx.set_state(("cap", repr(R["w1"]), repr(R["w2"])))
            return
        for i, css in enumerate(searchers):
            if css.ruledb.equivdb[css.start_label] != css.start_label:
                ctx.probe("root_not_own_representative")
                not_fresh = True
        ctx.ev("result", None if res is None else [sorted(map(repr, sp.rules_dict)) for sp in res])
        if res is None:
            ctx.probe("result_none")
            ctx.set_state(("none", repr(classes), R["variant"]))
            ctx.sim_seconds = clock.elapsed()
            return
        if not (isinstance(res, tuple) and len(res) == 2):
            raise Violation("C13:malformed-result", repr(type(res)))
        ctx.probe("result_pair")
        for i, (spec, c, pack) in enumerate(zip(res, classes, packs)):
            allowed = WW.pack_strategies(pack)
            specval.check_structure(spec, c, allowed, ctx, tag=f"C13:spec{i + 1}")
            specval.check_counts(spec, c, R["nmax"], R["order_seed"] + i, ctx, tag=f"C13:spec{i + 1}")
        chain = any(equivalence_chain(s) for s in res)
        note = " [a specification has consecutive equivalence rules through visible classes]" if chain else ""
        if not chain and not (Isomorphism.check(res[0], res[1]) and Isomorphism.check(res[1], res[0])):
            note = diagnose(classes, packs, R["variant"])
        if chain:
            ctx.probe("equivalence_chain_in_spec")
        if not Isomorphism.check(res[0], res[1]):
            raise Violation("C13:pair-not-isomorphic", f"Isomorphism.check(spec1, spec2) is False for {classes[0]} / {classes[1]} ({R['variant']}){note}")
        if not Isomorphism.check(res[1], res[0]):
            raise Violation("C13:pair-not-isomorphic-reversed", f"Isomorphism.check(spec2, spec1) is False for {classes[0]} / {classes[1]}{note}")
        ctx.sim_seconds = clock.elapsed()
        ctx.nontrivial = not_fresh
        ctx.probe("variant_" + R["variant"])
        ctx.probe("kind_" + R["kind"])
        ctx.set_state((repr(classes), R["variant"], [sorted(map(repr, s.rules_dict)) for s in res]))
        ctx.set_interleaving((R["pre1"], R["pre2"]))


def simplify(R):
    for key in ("pre1", "pre2"):
        for i in range(len(R[key])):
            yield dict(R, **{key: R[key][:i] + R[key][i + 1 :]})
    for wk in ("w1", "w2"):
        w = R[wk]
        for i in range(len(w["patterns"])):
            yield dict(R, **{wk: dict(w, patterns=w["patterns"][:i] + w["patterns"][i + 1 :])})
        if w["tracked"]:
            yield dict(R, **{wk: dict(w, tracked=[])})
        if w["prefix"]:
            yield dict(R, **{wk: dict(w, prefix=w["prefix"][:-1])})
        if w["compress"]:
            yield dict(R, **{wk: dict(w, compress=False)})
    for pk in ("p1", "p2"):
        p = R[pk]
        for sect in ("inferral", "symmetries"):
            for i in range(len(p[sect])):
                yield dict(R, **{pk: dict(p, **{sect: p[sect][:i] + p[sect][i + 1 :]})})
        for sect in ("initial", "inferral"):
            for i, s in enumerate(p[sect]):
                if s.get("lazy") or s.get("two_way") is False:
                    yield dict(R, **{pk: dict(p, **{sect: p[sect][:i] + [dict(s, lazy=False, two_way=True)] + p[sect][i + 1 :]})})
    if R["variant"] != "plain":
        yield dict(R, variant="plain")
