"""
C19 - expanding verified classes preserves the enumeration and finishes the job.

EXPAND harness: words world with FiatVerified strategies that supply a pack (a
seeded share of the non-atom classes is declared verified, truthfully); the
original specification comes from a simulated search under each rule DB; then
spec.expand_verified() - and expand_comb_class with a time limit, interrupted
and repeated - runs under the jitter clock, because the inner searches are
full time-sliced expand/search loops over a forest DB and the specification
they return depends on where the slices fall.

Oracle: the result passes the C01 and C02 validators for the same start class;
it has no verified class left that offers a pack; it shares no rule object with
the original; the original's rule dictionary (keys, rule identities) and term
tables are unchanged.  SpecificationNotFound is accepted only when the supplied
pack is masked (the world cannot then confirm that a specification exists).
"""
from ..core import Violation
from ..ref import specval
from . import search_common as S
from ..worlds import words as WW

from comb_spec_searcher.exception import ExceededMaxtimeError, InvalidOperationError, SpecificationNotFound
from comb_spec_searcher.strategies.rule import EquivalencePathRule, EquivalenceRule, ReverseRule, VerificationRule

ID = "C19"
QUICK_RUNS = 6000
CHUNK = 15
THOROUGH_BUDGET_S = 900
WATCHDOG = 90.0
LEVEL = "exploration"
RULE = (
    "one run = words world + outer pack whose FiatVerified strategy (5-60% of the non-atom classes, by seeded hash) supplies an inner "
    "pack (plain or masked / lazy, with or without inferral strategies) x rule DB of the original search x jitter clock for the inner "
    "searches x optional time-limited, interrupted expand_comb_class calls first; non-trivial = the original has >= 1 verified "
    "class offering a pack and the expansion returned a specification; distinct = distinct digest of (rule DB, start class, original "
    "classes, expanded classes)"
)
REAL_VS_STUB = {
    "real": ["specification.expand_verified / expand_comb_class", "inner CombinatorialSpecificationSearcher + RuleDBForest + ForestRuleExtractor", "rule copying"],
    "stub": ["clock (jitter), random source, words world"],
}
ASSUMPTIONS = ["an unmasked inner pack {RemoveFront, Expand, atoms} can specify every non-empty class of the words world"]


def gen_reverse_needed(rng, tier):
    """Directed scenario: the verified class V = W(a) cannot be finished with forward rules, because no
    strategy of its pack applies to its child Y = W(ab); Y is only obtainable as W(aab) / {a} (the pattern
    'abc' makes RemoveFront cut W(aab) there), so the retry with reverse rules is needed - and it has to
    re-expand classes that already have rules in the specification."""
    a, b, c = rng.choice([0, 1]), rng.choice([0, 1]), rng.choice([0, 1])
    y = [a, b]
    pats = [y + [c]]
    tracked = [] if rng.random() < 0.5 else [rng.choice([0, 1])]
    world = {"alphabet": [0, 1], "patterns": pats, "prefix": [], "tracked": tracked, "compress": rng.random() < 0.3, "marks": 1}
    cls = WW.make_class(world)
    v = cls.replace(prefix=(a,))
    inner = {
        "initial": [],
        "inferral": [],
        # Expand first, RemoveFront after it in the same set (so that W(aa) is expanded to W(aab) before its
        # front is removed); Expand is bounded by a maximal prefix length, which keeps the universe finite
        "expansion": [
            [
                {"t": "Expand", "d": 1, "mask": [0, 100, rng.choice([3, 4, 5]), [y]], "lazy": rng.random() < 0.2},
                {"t": "RemoveFront", "mask": [0, 100, 99, [y]], "lazy": rng.random() < 0.2},
            ]
        ],
        "ver": [{"t": "WordAtom"}],
        "name": "inner",
    }
    key = [list(v.prefix), [list(p) for p in v.patterns], list(v.alphabet), False, list(v.tracked)]
    pack = {
        "initial": [{"t": "RemoveFront", "mask": None, "lazy": False}],
        "inferral": [],
        "expansion": [[{"t": "Expand", "d": 1, "mask": None, "lazy": False}]],
        "ver": [{"t": "FiatVerified", "keys": [key], "salt": 0, "pct": 0, "pack_spec": inner}, {"t": "WordAtom"}],
        "symmetries": [],
        "iterative": False,
    }
    return {
        "world": world,
        "pack": pack,
        "config": {"ruledb": rng.choice(["default", "forget", "forest", "forest_noreverse"]), "expand_verified": False, "debug": False},
        "clock": {"policy": "frozen", "seed": rng.randrange(1 << 30), "stall": 64, "skew_p": 0.0},
        "rng": {"policy": rng.choice(["seeded", "first", "last"]), "seed": rng.randrange(1 << 30)},
        "ops": [["auto", {"perc": 1, "smallest": False, "status_update": None, "budgets": [], "tail_budget": None}]],
        "nmax": 6,
        "order_seed": rng.randrange(1 << 30),
        "fault_free": True,
        "inner_masked": True,
        "directed": "reverse_needed",
        "clock2": {"policy": "jitter", "seed": rng.randrange(1 << 30), "stall": rng.choice([0, 1, 8, 64]), "skew_p": rng.choice([0.0, 0.05])},
        "limited_first": rng.choice([None, None, 0.0, 0.5]),
    }


def gen(rng, tier):
    if rng.random() < 0.12:
        return gen_reverse_needed(rng, tier)
    if rng.random() < 0.1:
        # layer 'keep_working': ordinary simulated searches created with expand_verified=True (what
        # expand_comb_class builds for its retry); every child of a workable rule has to be queued
        R = S.gen_search(rng, tier, flavour=ID)
        R["config"]["expand_verified"] = True
        R["config"]["debug"] = False
        R["layer"] = "keep_working"
        return R
    R = S.gen_search(rng, tier, flavour=ID)
    R["ops"] = [["auto", {"perc": 1, "smallest": rng.random() < 0.2, "status_update": None, "budgets": [], "tail_budget": None}]]
    R["config"]["debug"] = False
    R["config"]["expand_verified"] = False
    R["pack"]["iterative"] = False
    R["pack"]["symmetries"] = []
    masked = rng.random() < 0.35
    asize = len(R["world"]["alphabet"])
    # the inner searches build their own queue, so nothing caps them: masked inner packs are
    # kept finite by a small maximal prefix length on Expand
    emask = [rng.randrange(1000), rng.choice([70, 85, 95]), rng.choice([2, 3, 4] if asize == 2 else [2, 3])] if masked else None
    rmask = [rng.randrange(1000), rng.choice([85, 95]), 6] if masked and rng.random() < 0.5 else None
    inner = {
        "initial": [{"t": "RemoveFront", "mask": rmask, "lazy": rng.random() < 0.2}],
        "inferral": [{"t": "ReducePatterns", "two_way": rng.random() < 0.7}] if rng.random() < 0.4 else [],
        "expansion": [[{"t": "Expand", "d": rng.choice([1, 1, 2]) if asize == 2 else 1, "mask": emask, "lazy": rng.random() < 0.2}]],
        "ver": [{"t": "WordAtom"}],
        "name": "inner",
    }
    if rng.random() < 0.3:
        # nested verification: the inner pack verifies some classes by fiat again, with a pack of its own,
        # so new expandable classes appear after the first expansion
        inner2 = {
            "initial": [{"t": "RemoveFront"}],
            "inferral": [],
            "expansion": [[{"t": "Expand", "d": 1}]],
            "ver": [{"t": "WordAtom"}],
            "name": "inner2",
        }
        inner["ver"] = [{"t": "FiatVerified", "salt": rng.randrange(1000), "pct": rng.choice([15, 30, 60]), "pack_spec": inner2}] + inner["ver"]
    fiat = {"t": "FiatVerified", "salt": rng.randrange(1000), "pct": rng.choice([5, 15, 30, 60]), "pack_spec": inner, "ignore_parent": rng.random() < 0.3}
    # the strategy may offer its pack for some of the classes it verifies only (the others are counted directly)
    fiat["pack_pct"] = rng.choice([100, 100, 100, 60, 30])
    ver = [v for v in R["pack"]["ver"] if v["t"] != "FiatVerified"]
    # AtomStrategy cannot count classes with statistics; keep what the generator chose
    R["pack"]["ver"] = [fiat] + ver if rng.random() < 0.7 else ver + [fiat]
    R["inner_masked"] = masked
    R["clock2"] = {"policy": "jitter", "seed": rng.randrange(1 << 30), "stall": rng.choice([0, 1, 8, 64]), "skew_p": rng.choice([0.0, 0.05])}
    R["limited_first"] = rng.choice([None, None, 0.0, 0.001, 0.5, 50.0])
    # the class to expand may be named by its label in the specification (documented alternative)
    R["by_label"] = rng.random() < 0.5
    return R


def rule_objects(spec):
    """ids of the rule objects of the specification: its rules and the links of its equivalence paths."""
    seen = {}

    def walk(r):
        if id(r) in seen:
            return
        seen[id(r)] = r
        if isinstance(r, EquivalencePathRule):
            for x in r.rules:
                walk(x)
        # the rule an equivalence / reverse form was derived from is an internal of
        # that form (only its strategy and constructor are read), not a rule of the
        # specification; sharing it is not judged

    for r in spec.rules_dict.values():
        walk(r)
    return seen


def standalone_check(spec, ctx):
    """A masked inner pack may really be unable to specify a verified class.  What can still be
    said: the expansion searches a universe that contains everything an ordinary search of that
    class with the same pack (forest DB, reverse rules on, verified classes expanded) explores,
    plus the other rules of the specification - so if the ordinary search finds a specification,
    the expansion must not fail.  The loop of expand_verified is replayed to find the class at
    which it gave up."""
    from comb_spec_searcher import CombinatorialSpecificationSearcher
    from comb_spec_searcher.rule_db import RuleDBForest

    cur = spec
    for _ in range(20):
        try:
            cls = next(cur.unexpanded_verified_classes())
        except StopIteration:
            return
        pack = cur.rules_dict[cls].pack()
        try:
            cur = cur.expand_comb_class(cls, pack, reverse=False, continue_expanding_verified=False)
            continue
        except SpecificationNotFound:
            pass
        try:
            cur = cur.expand_comb_class(cls, pack, reverse=True, continue_expanding_verified=True)
            continue
        except SpecificationNotFound:
            css = CombinatorialSpecificationSearcher(cls, pack, ruledb=RuleDBForest(reverse=True), expand_verified=True)
            try:
                css.auto_search()
            except SpecificationNotFound:
                ctx.probe("standalone_search_agrees_not_found")
                return
            raise Violation(
                "C19:expansion-not-found-but-standalone-search-succeeds",
                f"expanding {cls} with its pack failed (also with reverse rules) although an ordinary forest search of that class with the same pack finds a specification",
            )


def execute(R, ctx):
    if R.get("layer") == "keep_working":
        S.execute_search(R, ctx, focus="C19S")
        ctx.probe("layer_keep_working")
        return
    sim = S.Sim(R, ctx, "C19")
    start = sim.world_class
    got = {}

    def on_spec(spec, how):
        got["spec"] = spec

    with S.install(sim) as inst:
        try:
            sim.build()
            res = S.exec_ops(sim, R, ctx, on_spec)
        except S.PacketCap:
            res = "capped"
        ctx.probe("original_" + res)
        if res != "spec":
            ctx.set_state(("nospec", repr(start), R["config"]["ruledb"]))
            return
        spec = got["spec"]
        if spec.number_of_rules() > 45:
            # forest minimisation is super-linear in the universe; huge originals are left out
            ctx.probe("original_too_big")
            ctx.set_state(("toobig", repr(start), R["config"]["ruledb"]))
            return
        from ..clock import SimClock

        clock2 = SimClock(**R["clock2"])
        inst.swap(clock=clock2)
        import comb_spec_searcher.strategies.strategy  # noqa: F401

        inner_pack = None
        for st in sim.pack.ver_strats:
            if isinstance(st, WW.FiatVerified):
                inner_pack = WW.make_pack(st.pack_spec)
        allowed = list(sim.allowed) + WW.pack_strategies(inner_pack)
        for st in inner_pack.ver_strats:
            if isinstance(st, WW.FiatVerified) and st.pack_spec is not None:
                allowed += WW.pack_strategies(WW.make_pack(st.pack_spec))
        # the original must itself be right, otherwise nothing can be said
        specval.check_counts(spec, start, R["nmax"], R["order_seed"], ctx, tag="C01")
        specval.check_structure(spec, start, allowed, ctx, tag="C02")
        def offering(sp):
            """Independent scan: the verified classes of a specification whose strategy offers a pack."""
            res = []
            for c, r in sp.rules_dict.items():
                if isinstance(r, VerificationRule):
                    try:
                        r.strategy.pack(c)
                    except InvalidOperationError:
                        continue
                    res.append(c)
            return res

        todo = list(spec.unexpanded_verified_classes())
        if sorted(map(repr, todo)) != sorted(map(repr, offering(spec))):
            raise Violation(
                "C19:unexpanded-classes-wrong",
                f"unexpanded_verified_classes() of the original gives {todo[:4]}, the verified classes whose strategy offers a pack are {offering(spec)[:4]}",
            )
        ctx.stat("verified_with_pack", len(todo))
        before_keys = list(spec.rules_dict.keys())
        before_ids = {c: id(r) for c, r in spec.rules_dict.items()}
        before_objs = rule_objects(spec)
        before_terms = [dict(spec.get_terms(n)) for n in range(R["nmax"] + 1)]
        S.seams.SINK.listener = None  # the inner searchers build their own queues and DBs

        def original_unchanged(where):
            if list(spec.rules_dict.keys()) != before_keys:
                raise Violation("C19:original-keys-changed", f"{where}: the original specification's rule dictionary changed its keys")
            for c, r in spec.rules_dict.items():
                if id(r) != before_ids[c]:
                    raise Violation("C19:original-rule-replaced", f"{where}: the original's rule for {c} was replaced")
            for n in range(R["nmax"] + 1):
                if dict(spec.get_terms(n)) != before_terms[n]:
                    raise Violation("C19:original-terms-changed", f"{where}: original get_terms({n}) changed")

        if todo and R["limited_first"] is not None:
            # a time-limited expansion, possibly interrupted
            cls = todo[0]
            try:
                arg = spec.get_label(cls) if R.get("by_label") else cls
                old_strategy = spec.rules_dict[cls].strategy
                part = spec.expand_comb_class(arg, spec.rules_dict[cls].pack(), reverse=False, continue_expanding_verified=False, max_expansion_time=R["limited_first"])
                ctx.probe("limited_expansion_finished")
                if R.get("by_label"):
                    ctx.probe("expanded_by_label")
                pr = part.rules_dict.get(cls)
                if isinstance(pr, VerificationRule) and pr.strategy is old_strategy:
                    raise Violation(
                        "C19:class-not-expanded",
                        f"expand_comb_class({arg!r}, ...) returned a specification in which {cls} still has its old verification rule ({old_strategy!r})",
                    )
                specval.check_counts(part, start, R["nmax"], R["order_seed"] + 5, ctx, tag="C19")
            except ExceededMaxtimeError:
                ctx.fault("time_limit_interrupt")
            except SpecificationNotFound:
                ctx.probe("limited_expansion_not_found")
            original_unchanged("after a time-limited expand_comb_class")
        try:
            new = spec.expand_verified()
        except SpecificationNotFound:
            ctx.probe("expansion_not_found")
            if not R["inner_masked"]:
                raise Violation("C19:expansion-not-found", f"expand_verified raised SpecificationNotFound although the supplied pack is unmasked (start {start}, verified classes {todo[:3]})")
            if R.get("directed") and todo:
                # this scenario was checked by hand (DESIGN.md 6.19): the first attempt must fail and the
                # retry with reverse rules must succeed
                raise Violation("C19:directed-reverse-expansion-not-found", f"expand_verified failed on the directed reverse-needed scenario (start {start}, verified {todo[:1]})")
            standalone_check(spec, ctx)
            original_unchanged("after a failed expand_verified")
            ctx.set_state(("notfound", repr(start), R["config"]["ruledb"]))
            ctx.sim_seconds = sim.clock.elapsed() + clock2.elapsed()
            return
        original_unchanged("after expand_verified")
        if not todo:
            if new is not spec:
                ctx.probe("nothing_to_expand_but_new_object")
        else:
            left = offering(new)
            if left:
                raise Violation("C19:verified-class-left", f"the expanded specification still has verified classes offering a pack: {left[:3]}")
            shared = set(rule_objects(new)) & set(before_objs)
            if shared:
                r = before_objs[next(iter(shared))]
                raise Violation("C19:shared-rule-object", f"the expanded specification shares a rule object with the original: {type(r).__name__} for {r.comb_class}")
            ctx.probe("expanded")
            if R.get("directed"):
                ctx.probe("directed_expanded")
            if any(isinstance(r, ReverseRule) or (isinstance(r, EquivalenceRule) and isinstance(r.original_rule, ReverseRule)) for r in rule_objects(new).values()):
                ctx.probe("reverse_rule_in_expanded_spec")
        specval.check_counts(new, start, R["nmax"], R["order_seed"] + 1, ctx, tag="C19")
        specval.check_structure(new, start, allowed, ctx, tag="C19")
        for r in new.rules_dict.values():
            if isinstance(r, VerificationRule) and isinstance(r.strategy, WW.FiatVerified) and r.strategy.offers_pack(r.comb_class):
                raise Violation("C19:verified-class-left", f"fiat-verified class {r.comb_class} (pack offered) survives the expansion")
        # the original is still usable
        specval.check_counts(spec, start, min(R["nmax"], 4), R["order_seed"] + 2, ctx, tag="C19:original")
        ctx.sim_seconds = sim.clock.elapsed() + clock2.elapsed()
        ctx.fault("clock_jitter")
        if clock2.skews:
            ctx.fault("clock_backward_step", clock2.skews)
        ctx.probe("db_" + R["config"]["ruledb"])
        ctx.nontrivial = bool(todo)
        ctx.set_state((R["config"]["ruledb"], repr(start), sorted(map(repr, spec.rules_dict)), sorted(map(repr, new.rules_dict))))
        ctx.set_interleaving((clock2.reads, clock2.jumps, round(clock2.elapsed(), 3)))


simplify = S.simplify_search
