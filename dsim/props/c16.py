"""
C16 - the work queue schedules every class completely, once, in order, and
terminates.

QUEUE machine: a real DefaultQueue built from packs with 0-2 inferral, 0-3
initial and 0-3 expansion sets of 1-2 distinct dummy strategies is driven by a
seeded history of add / stop / verified / not-inferrable / next / level-wise
iteration (opened, stepped and abandoned at arbitrary points) / drain /
pickle-restart.  Oracle: the trace predicates of dsim/ref/queue.py plus
level-iteration semantics (P5) and bounded progress.  The same monitor is fed
with the queue histories of real searches by the SEARCH-based checks (layer
'search' of this module).
"""

import pickle

from ..core import Violation, pickle_roundtrip
from ..ref.queue import QueueMonitor, QueueViolation
from .. import seams  # noqa: F401

from comb_spec_searcher.class_queue import DefaultQueue
from comb_spec_searcher.exception import NoMoreClassesToExpandError
from comb_spec_searcher.strategies.strategy_pack import StrategyPack

ID = "C16"
QUICK_RUNS = 16000
CHUNK = 250
THOROUGH_BUDGET_S = 600
LEVEL = "exploration"
RULE = (
    "layer 'machine': histories of <=80 (thorough <=200) ops over <=10 labels and packs with 0-2 inferral, 0-3 initial, 0-3 "
    "expansion sets; layer 'search': queue histories of real searches in the words world; non-trivial = at "
    "least 5 packets handed out, at least one exhaustion reached and at least one stop/verified/not-inferrable "
    "mark; distinct = distinct (pack shape, op history)"
)
REAL_VS_STUB = {
    "real": ["class_queue.DefaultQueue", "strategies.strategy_pack.StrategyPack", "pickle"],
    "stub": ["strategies are inert named objects (the queue never calls them)", "layer machine: the searcher is replaced by the op history"],
}
ASSUMPTIONS = [
    "a not-inferrable mark counts as 'first' when it precedes the next() call that hands out the label's first packet",
]


class DummyStrat:
    def __init__(self, name):
        self.name = name

    def __eq__(self, other):
        return isinstance(other, DummyStrat) and self.name == other.name

    def __hash__(self):
        return hash(self.name)

    def __repr__(self):
        return f"S({self.name})"


def gen(rng, tier):
    if rng.random() < SEARCH_FRACTION:
        from . import search_common as S

        R = S.gen_search(rng, tier, flavour="C16")
        R["layer"] = "search"
        return R
    big = tier == "thorough"
    n_inf = rng.choice([0, 0, 1, 2])
    n_init = rng.choice([0, 1, 1, 2, 3])
    # an expansion set may be empty (StrategyPack.add_expansion([]) is allowed): labels pass through it
    sets = [rng.choice([1, 1, 1, 2, 2, 2, 0]) for _ in range(rng.choice([0, 1, 1, 2, 3]))]
    n_labels = rng.randint(1, 10)
    n_ops = rng.randint(3, 200 if big else 80)
    w = {
        "add": rng.choice([2, 4, 6]),
        "stop": rng.choice([0, 1, 2]),
        "verified": rng.choice([0, 1]),
        "noinf": rng.choice([0, 1, 2]),
        "next": rng.choice([3, 6, 10]),
        "lvl_open": rng.choice([0, 1, 2]),
        "lvl_next": rng.choice([0, 3, 6]),
        "lvl_close": rng.choice([0, 1]),
        "lvl_all": rng.choice([0, 1, 2]),
        "drain": rng.choice([0, 1]),
        "restart": rng.choice([0, 0, 1]),
    }
    kinds = [k for k, v in w.items() for _ in range(v)]
    ops = []
    fresh = 0
    if rng.random() < 0.12 and sets:
        # many levels: one fresh label per round, each round consumed level-wise (the level counter
        # has to keep counting however many levels there are)
        n_labels = rng.randint(12, 26)
        very_many = rng.random() < 0.15
        if very_many:
            n_labels = rng.randint(258, 300)  # beyond CPython's small-integer cache as well
        for l in range(n_labels):
            ops.append(["add", l])
            ops.append(["lvl_all"] if very_many else [rng.choice(["lvl_all", "lvl_all", "drain"])])
            if rng.random() < (0.02 if very_many else 0.2):
                ops.append(["restart"])
        ops.append(["drain"])
        ops.append(["next"])
        return {"layer": "machine", "pack": [n_inf, n_init, sets], "n_labels": n_labels, "ops": ops}
    for _ in range(n_ops):
        k = rng.choice(kinds)
        if k == "add":
            if fresh < n_labels and rng.random() < 0.6:
                ops.append(["add", fresh])
                fresh += 1
            else:
                ops.append(["add", rng.randrange(n_labels)])  # duplicate / finished / not yet seen
        elif k in ("stop", "verified", "noinf"):
            ops.append([k, rng.randrange(n_labels)])
        else:
            ops.append([k])
    ops.append(["drain"])
    ops.append(["next"])
    return {"layer": "machine", "pack": [n_inf, n_init, sets], "n_labels": n_labels, "ops": ops}


SEARCH_FRACTION = 0.1


def make_pack(shape):
    n_inf, n_init, sets = shape
    inf = [DummyStrat(f"inf{i}") for i in range(n_inf)]
    init = [DummyStrat(f"init{i}") for i in range(n_init)]
    exp = [[DummyStrat(f"e{j}.{i}") for i in range(n)] for j, n in enumerate(sets)]
    return StrategyPack(initial_strats=init, inferral_strats=inf, expansion_strats=exp, ver_strats=[], name="dummy")


def execute(R, ctx):
    if R.get("layer") == "search":
        from . import search_common as S

        return S.execute_search(R, ctx, focus="C16")
    pack = make_pack(R["pack"])
    q = DefaultQueue(pack)
    mon = QueueMonitor(
        [s.name for s in pack.inferral_strats],
        [s.name for s in pack.initial_strats],
        [[s.name for s in st] for st in pack.expansion_strats],
    )
    gen_ = None  # open do_level generator
    gen_level = None
    marks = 0
    exhaustions = 0

    expansion_names = {s.name for st in pack.expansion_strats for s in st}
    added_level = {}

    def handed(wp):
        ctx.ev("pkt", wp.label, tuple(s.name for s in wp.strategies), wp.inferral)
        if not wp.inferral and wp.strategies[0].name in expansion_names:
            # P6: expansion work belongs to a later level than the one in which the label was queued
            if q.levels_completed <= added_level.get(wp.label, -1):
                raise Violation(
                    "P6-expansion-in-the-level-of-the-add",
                    f"label {wp.label} was added while the level counter was {added_level[wp.label]} and receives expansion work "
                    f"{wp.strategies[0].name} while the counter is still {q.levels_completed}",
                )
        try:
            mon.on_packet(wp.label, tuple(s.name for s in wp.strategies), wp.inferral)
        except QueueViolation as e:
            raise Violation(e.oracle, e.msg) from e

    def exhausted():
        nonlocal exhaustions
        exhaustions += 1
        ctx.ev("exhausted")
        try:
            mon.on_exhausted()
        except QueueViolation as e:
            raise Violation(e.oracle, e.msg) from e

    def do_next():
        try:
            wp = next(q)
        except StopIteration:
            exhausted()
            return None
        handed(wp)
        return wp

    def lvl_step():
        """One step of the open level generator. Returns False when it ended."""
        nonlocal gen_, gen_level
        if gen_level is None:
            # do_level() is a generator: it reads the level counter when it is
            # first stepped, not when it is created
            gen_level = q.levels_completed
        try:
            wp = next(gen_)
        except StopIteration:
            # normal end: the level counter must have advanced
            ctx.ev("lvl_end", q.levels_completed)
            if q.levels_completed <= gen_level:
                raise Violation("P5-level-ended-without-advance", f"do_level() ended but levels_completed stayed {gen_level}")
            ctx.probe("level_completed")
            gen_ = None
            return False
        except NoMoreClassesToExpandError:
            ctx.ev("lvl_nomore", q.levels_completed)
            ctx.probe("no_more_classes_error")
            if q.levels_completed != gen_level:
                raise Violation("P5-error-after-advance", "NoMoreClassesToExpandError although the level counter advanced")
            exhausted()
            gen_ = None
            return False
        if q.levels_completed > gen_level + 1:
            raise Violation("P5-level-skipped", f"level counter went from {gen_level} to {q.levels_completed} during one do_level()")
        handed(wp)
        return True

    for op in R["ops"]:
        k = op[0]
        if k == "add":
            added_level.setdefault(op[1], q.levels_completed)
            q.add(op[1])
            mon.on_add(op[1])
            ctx.ev("add", op[1])
        elif k == "stop":
            q.set_stop_yielding(op[1])
            mon.on_stop(op[1])
            marks += 1
            ctx.ev("stop", op[1])
        elif k == "verified":
            q.set_verified(op[1])
            mon.on_stop(op[1])
            marks += 1
            ctx.ev("verified", op[1])
        elif k == "noinf":
            q.set_not_inferrable(op[1])
            mon.on_noinf(op[1])
            marks += 1
            ctx.ev("noinf", op[1])
        elif k == "next":
            do_next()
        elif k == "drain":
            bound = mon.remaining_bound()
            n = 0
            while do_next() is not None:
                n += 1
                if n > bound:
                    raise Violation("liveness-bound", f"more than {bound} hand-outs without an add and still not exhausted")
            ctx.probe("drained")
        elif k == "lvl_open":
            gen_ = q.do_level()
            gen_level = None
            ctx.ev("lvl_open")
        elif k == "lvl_next":
            if gen_ is not None:
                lvl_step()
        elif k == "lvl_close":
            if gen_ is not None:
                ctx.probe("level_iteration_abandoned")
                gen_ = None
        elif k == "lvl_all":
            gen_ = q.do_level()
            gen_level = None
            bound = mon.remaining_bound()
            n = 0
            while lvl_step():
                n += 1
                if n > bound:
                    raise Violation("liveness-bound", f"do_level() handed out more than {bound} packets")
        elif k == "restart":
            q2 = pickle_roundtrip(q, "C16")
            if not q2 == q:
                raise Violation("restart-unequal", "queue != its pickle round trip")
            q = q2
            gen_ = None
            ctx.fault("pickle_restart")
            if getattr(q, "staging", None):
                ctx.probe("restart_with_staged_packets")
            if any(getattr(q, "curr_level", ())):
                ctx.probe("restart_mid_level")
            ctx.ev("restart")
        else:
            raise ValueError(k)

    ctx.stat("packets", mon.packets)
    ctx.stat("exhaustions", exhaustions)
    ctx.set_state((R["pack"], R["ops"]))
    ctx.nontrivial = mon.packets >= 5 and exhaustions >= 1 and marks >= 1


def simplify(R):
    if R.get("layer") == "search":
        from . import search_common as S

        yield from S.simplify_search(R)
        return
    n_inf, n_init, sets = R["pack"]
    if n_inf:
        yield dict(R, pack=[n_inf - 1, n_init, sets])
    if n_init:
        yield dict(R, pack=[n_inf, n_init - 1, sets])
    if sets:
        yield dict(R, pack=[n_inf, n_init, sets[:-1]])
        if sets[-1] > 1:
            yield dict(R, pack=[n_inf, n_init, sets[:-1] + [sets[-1] - 1]])
