"""Deterministic simulation with fault injection for comb_spec_searcher."""
