"""Reference models on small integer graphs.  Shares no code with the library."""


def reach_closure(nodes, edges):
    """Reflexive-transitive closure as dict node -> frozenset(reachable)."""
    adj = {u: set() for u in nodes}
    for u, v in edges:
        adj.setdefault(u, set()).add(v)
        adj.setdefault(v, set())
    res = {}
    for s in adj:
        seen = {s}
        stack = [s]
        while stack:
            u = stack.pop()
            for v in adj[u]:
                if v not in seen:
                    seen.add(v)
                    stack.append(v)
        res[s] = frozenset(seen)
    return res


def scc_partition(nodes, edges):
    """dict node -> frozenset(scc)."""
    reach = reach_closure(nodes, edges)
    comp = {}
    for u in reach:
        comp[u] = frozenset(v for v in reach[u] if u in reach[v])
    return comp
