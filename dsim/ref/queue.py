"""
Trace predicates for the work queue (C16), stated on the history of operations
and hand-outs only - never on queue internals.

P1  no packet for a label after the user stopped it (set_stop_yielding /
    set_verified)
P2  no (label, strategy) handed out twice; more precisely the packets of one
    label arrive in pack order: [inferral], initial strategies, expansion set 0,
    set 1, ...   (each at most once)
P2b no inferral packet for a label that was marked not-inferrable before the
    next() call that handed it out
P3  whenever next() signals exhaustion, every label added before and never
    stopped has received everything: inferral (iff the pack has inferral
    strategies and the label was never marked not-inferrable), every initial
    strategy, every strategy of every expansion set
P4  exhaustion persists until an add
"""


class QueueViolation(Exception):
    def __init__(self, oracle, msg):
        super().__init__(msg)
        self.oracle = oracle
        self.msg = msg


class QueueMonitor:
    def __init__(self, inferral, initial, sets):
        """inferral / initial: tuples of strategy ids; sets: tuple of tuples."""
        self.inferral = tuple(inferral)
        self.initial = tuple(initial)
        self.sets = tuple(tuple(s) for s in sets)
        self.tail = list(self.initial) + [s for st in self.sets for s in st]
        self.added = []
        self.added_set = set()
        self.stopped = set()
        self.noinf = set()
        self.got_inf = set()
        self.pos = {}  # label -> index into self.tail of next expected packet
        self.exhausted = False
        self.add_since_exhausted = False
        self.packets = 0
        self.per_label_budget = (1 if self.inferral else 0) + len(self.tail)

    # -- operations ----------------------------------------------------
    def on_add(self, label):
        if label not in self.added_set:
            self.added_set.add(label)
            self.added.append(label)
        self.add_since_exhausted = True

    def on_stop(self, label):
        self.stopped.add(label)

    def on_noinf(self, label):
        if label not in self.stopped:
            self.noinf.add(label)

    def on_restart(self):
        pass

    # -- hand-outs -------------------------------------------------------
    def on_packet(self, label, strat_ids, inferral):
        if self.exhausted and not self.add_since_exhausted:
            raise QueueViolation("P4-exhaustion-not-persistent", f"packet for label {label} after exhaustion without any add")
        self.exhausted = False
        self.packets += 1
        if label in self.stopped:
            raise QueueViolation("P1-packet-after-stop", f"label {label} was stopped but received {strat_ids}")
        if label not in self.added_set:
            raise QueueViolation("P0-packet-for-unknown-label", f"label {label} was never added but received {strat_ids}")
        if inferral:
            if tuple(strat_ids) != self.inferral:
                raise QueueViolation("P2-wrong-inferral-packet", f"inferral packet for {label} carries {strat_ids}, pack has {self.inferral}")
            if label in self.got_inf:
                raise QueueViolation("P2-duplicate-packet", f"inferral packet for label {label} handed out twice")
            if self.pos.get(label, 0) > 0:
                raise QueueViolation("P2-order", f"inferral packet for label {label} after other work")
            if label in self.noinf:
                raise QueueViolation("P2b-inferral-after-not-inferrable", f"label {label} was marked not-inferrable, then received its inferral packet")
            self.got_inf.add(label)
            return
        if len(strat_ids) != 1:
            raise QueueViolation("P2-malformed-packet", f"non-inferral packet with strategies {strat_ids}")
        s = strat_ids[0]
        i = self.pos.get(label, 0)
        if i < len(self.tail) and self.tail[i] == s:
            self.pos[label] = i + 1
            return
        if s in self.tail[:i]:
            raise QueueViolation("P2-duplicate-packet", f"({label}, {s}) handed out twice")
        raise QueueViolation("P2-order", f"label {label} received {s} but the next strategy in pack order is {self.tail[i] if i < len(self.tail) else None}")

    def on_exhausted(self):
        self.exhausted = True
        self.add_since_exhausted = False
        for label in self.added:
            if label in self.stopped:
                continue
            if self.pos.get(label, 0) != len(self.tail):
                raise QueueViolation("P3-incomplete-at-exhaustion", f"queue exhausted but label {label} received only {self.tail[:self.pos.get(label, 0)]} of {self.tail}")
            if self.inferral and label not in self.noinf and label not in self.got_inf:
                raise QueueViolation("P3-inferral-missing-at-exhaustion", f"queue exhausted but label {label} never received its inferral packet")

    def remaining_bound(self):
        """Upper bound on hand-outs still possible without further adds."""
        return len(self.added) * self.per_label_budget - self.packets + 1
