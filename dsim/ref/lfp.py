"""
Reference "terms computable" least fixed point.  Shares no code with the library.

Rules are (parent, children, shifts).  T(f)(c) = max(0, max over rules r of c of
min_i (f(child_i) + shift_i)), empty min = infinity.  Kleene / chaotic iteration
from ``start`` (default 0) with values reaching the cap promoted to infinity.

Cap: K = (N + 2) * G + 2 with N the number of labels and G the largest |shift|
(at least 1).  A finite least-fixed-point value can never reach K (finite
values leave no gap of width G below them).  ``lfp_checked`` recomputes with 2K
and demands the same answer.
"""

INF = float("inf")


class CapDisagreement(Exception):
    pass


def cap_for(rules):
    labels = set()
    g = 1
    for p, ch, sh in rules:
        labels.add(p)
        labels.update(ch)
        for s in sh:
            g = max(g, abs(s))
    return (len(labels) + 2) * g + 2


def lfp(rules, cap=None, start=None):
    """Return dict label -> int or INF (labels with value 0 omitted)."""
    if cap is None:
        cap = cap_for(rules)
    f = dict(start or {})
    by_parent = {}
    for p, ch, sh in rules:
        by_parent.setdefault(p, []).append((ch, sh))
    changed = True
    while changed:
        changed = False
        for p, rs in by_parent.items():
            cur = f.get(p, 0)
            if cur == INF:
                continue
            best = cur
            for ch, sh in rs:
                v = INF
                for c, s in zip(ch, sh):
                    fc = f.get(c, 0)
                    if fc != INF:
                        w = fc + s
                        if w < v:
                            v = w
                            if v <= best:
                                break
                if v > best:
                    best = v
            if best != INF and best >= cap:
                best = INF
            if best > cur:
                f[p] = best
                changed = True
    return {k: v for k, v in f.items() if v != 0}


def lfp_checked(rules):
    k = cap_for(rules)
    a = lfp(rules, k)
    b = lfp(rules, 2 * k)
    if a != b:
        raise CapDisagreement(f"cap {k} vs {2*k}: {a} != {b}")
    return a


def pumps(rules, label):
    return lfp(rules).get(label, 0) == INF
