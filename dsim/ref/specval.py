"""
Independent validators for returned specifications (C01 / C02) in world W.

C01: counts from the specification equal brute-force counts of the start class.
C02: closed, one rule per class, every rule genuine (fresh re-application of the
     strategy through the world), productive by the reference LFP over
     (parent, children, shifts).
"""

import random as _random

from ..core import Violation
from . import lfp as L
from ..worlds import words as WW

from comb_spec_searcher.strategies.rule import (
    EquivalencePathRule,
    EquivalenceRule,
    ReverseRule,
    Rule,
    VerificationRule,
)
from comb_spec_searcher.strategies.strategy import EmptyStrategy


def check_counts(spec, start, nmax, order_seed, ctx, tag="C01"):
    """Terms and counts for all n <= nmax, queried in a seeded (non-monotone) order."""
    sizes = list(range(nmax + 1))
    _random.Random(order_seed).shuffle(sizes)
    names = start.extra_parameters
    for n in sizes:
        truth = WW.truth_terms(start, n)
        got = spec.get_terms(n)
        if +got != +truth or any(v < 0 for v in got.values()):
            raise Violation(
                f"{tag}:terms-mismatch",
                f"get_terms({n}) = {sorted((+got).items())}, brute force = {sorted(truth.items())} for start class {start}",
            )
        # counts for every parameter tuple with entries <= n
        import itertools

        for vals in itertools.product(range(n + 1), repeat=len(names)):
            c = spec.count_objects_of_size(n, **dict(zip(names, vals)))
            if c != truth.get(vals, 0):
                raise Violation(
                    f"{tag}:count-mismatch",
                    f"count_objects_of_size({n}, {dict(zip(names, vals))}) = {c}, brute force = {truth.get(vals, 0)} for {start}",
                )
        ctx.stat("count_queries", (n + 1) ** len(names) + 1)
    # History dimension: the counts of the start class must not depend on which other classes of the
    # specification were asked before (shared caches).  Every rule is read in a seeded order at seeded
    # sizes (the answers are not judged), then the start class is read again one size further.
    rng = _random.Random(order_seed ^ 0x5EED)
    rules = list(spec.rules_dict.values())
    rng.shuffle(rules)
    for rule in rules[:12]:
        try:
            rule.get_terms(rng.randint(0, nmax + 1))
        except NotImplementedError:
            pass
    for n in (nmax + 1, rng.randint(0, nmax)):
        truth = WW.truth_terms(start, n)
        got = spec.get_terms(n)
        if +got != +truth:
            raise Violation(
                f"{tag}:terms-mismatch-after-reading-other-classes",
                f"get_terms({n}) = {sorted((+got).items())} after other classes of the specification were read; brute force = {sorted(truth.items())} for start class {start}",
            )


def _strategy_in_pack(strategy, allowed):
    return any(strategy == s for s in allowed)


def _genuine_plain(rule, allowed, tag):
    st = rule.strategy
    c = rule.comb_class
    if isinstance(st, EmptyStrategy):
        raise Violation(f"{tag}:empty-strategy-as-rule", f"{rule}")
    if not _strategy_in_pack(st, allowed):
        raise Violation(f"{tag}:foreign-strategy", f"strategy {st!r} of the rule for {c} is not in the pack")
    fresh = st.decomposition_function(c)
    if fresh is None:
        raise Violation(f"{tag}:strategy-does-not-apply", f"{st!r} does not apply to {c} but the specification has that rule")
    if tuple(fresh) != tuple(rule.children):
        raise Violation(f"{tag}:children-differ", f"{st!r} on {c} gives {fresh}, the rule has {rule.children}")
    WW.selfcheck_rule(st, c)


def _true_nonempty(children):
    return [ch for ch in children if not WW.truth_empty(ch)]


def check_rule_genuine(rule, allowed, tag="C02"):
    """Every rule is what a strategy of the pack (or its reverse / equivalence
    form) really produces when re-applied to that class."""
    if isinstance(rule, VerificationRule):
        st = rule.strategy
        c = rule.comb_class
        if isinstance(st, EmptyStrategy):
            if not WW.truth_empty(c):
                raise Violation(f"{tag}:empty-rule-for-nonempty-class", f"class {c} has an empty rule but is not empty")
            return
        if not _strategy_in_pack(st, allowed):
            raise Violation(f"{tag}:foreign-strategy", f"verification strategy {st!r} for {c} is not in the pack")
        if not st.verified(c):
            raise Violation(f"{tag}:not-verified", f"{st!r} does not verify {c}")
        if tuple(rule.children) != ():
            raise Violation(f"{tag}:children-differ", f"verification rule with children {rule.children}")
        WW.selfcheck_rule(st, c)
        return
    if isinstance(rule, EquivalencePathRule):
        cur = rule.comb_class
        for r in rule.rules:
            if r.comb_class != cur:
                raise Violation(f"{tag}:path-not-chained", f"equivalence path for {rule.comb_class}: link starts at {r.comb_class}, expected {cur}")
            if len(r.children) != 1:
                raise Violation(f"{tag}:path-link-not-unary", f"{r}")
            check_rule_genuine(r, allowed, tag)
            cur = r.children[0]
        if cur != rule.children[0]:
            raise Violation(f"{tag}:path-not-chained", f"equivalence path ends at {cur}, rule says {rule.children}")
        return
    if isinstance(rule, EquivalenceRule):
        orig = rule.original_rule
        check_rule_genuine(orig, allowed, tag)
        ne = _true_nonempty(orig.children)
        if len(ne) != 1:
            raise Violation(f"{tag}:equivalence-with-several-nonempty-children", f"{orig.comb_class} -> {orig.children}: truly non-empty {ne}")
        if rule.comb_class != orig.comb_class or tuple(rule.children) != (ne[0],):
            raise Violation(f"{tag}:equivalence-wrong-child", f"equivalence rule {rule.comb_class} -> {rule.children}, non-empty child is {ne[0]}")
        return
    if isinstance(rule, ReverseRule):
        orig = rule.original_rule
        check_rule_genuine(orig, allowed, tag)
        if not orig.strategy.is_reversible(orig.comb_class):
            raise Violation(f"{tag}:reverse-of-irreversible", f"{orig.strategy!r}")
        idx = rule.idx
        och = tuple(orig.children)
        if not 0 <= idx < len(och):
            raise Violation(f"{tag}:reverse-bad-index", f"idx {idx}")
        if rule.comb_class != och[idx] or tuple(rule.children) != (orig.comb_class,) + och[:idx] + och[idx + 1 :]:
            raise Violation(f"{tag}:reverse-wrong-rearrangement", f"{rule.comb_class} -> {rule.children} is not the rearrangement of {orig.comb_class} -> {och} at {idx}")
        return
    if type(rule) is Rule:  # pylint: disable=unidiomatic-typecheck
        _genuine_plain(rule, allowed, tag)
        return
    raise Violation(f"{tag}:unknown-rule-form", f"{type(rule).__name__}")


def independent_shifts(rule):
    """The shifts of any rule form of the words world, computed without the library."""
    if isinstance(rule, EquivalencePathRule):
        return (0,)
    if isinstance(rule, VerificationRule):
        return tuple(0 for _ in rule.children)
    if isinstance(rule, EquivalenceRule):
        orig = rule.original_rule
        full = independent_shifts(orig)
        if isinstance(orig, ReverseRule):
            return (full[0],)
        return (full[list(orig.children).index(rule.children[0])],)
    if isinstance(rule, ReverseRule):
        orig = rule.original_rule
        fwd = WW.true_shifts(orig.strategy, orig.comb_class, orig.children)
        return WW.true_reverse_shifts(fwd, rule.idx)
    return WW.true_shifts(rule.strategy, rule.comb_class, rule.children)


def check_declared_shifts(rule, tag="C02"):
    if isinstance(rule, (EquivalencePathRule, VerificationRule)):
        return
    want = tuple(independent_shifts(rule))
    got = tuple(rule.shifts())
    if got != want:
        raise Violation(
            f"{tag}:declared-shifts-wrong",
            f"{type(rule).__name__} {rule.comb_class} -> {rule.children} ({rule.strategy!r}) declares shifts {got}; what it really reads is {want}",
        )


def rule_triple(rule, label):
    """(parent, children, shifts) as an independent fixed-point analysis sees the rule:
    the shifts are derived from the world, not taken from the library."""
    p = label(rule.comb_class)
    ch = tuple(label(c) for c in rule.children)
    return (p, ch, tuple(independent_shifts(rule)))


def check_structure(spec, start, allowed, ctx, rules_list=None, tag="C02"):
    rd = spec.rules_dict
    if spec.root != start:
        raise Violation(f"{tag}:wrong-root", f"specification root {spec.root}, start class {start}")
    if start not in rd:
        raise Violation(f"{tag}:root-without-rule", f"{start}")
    for c, rule in rd.items():
        if rule.comb_class != c:
            raise Violation(f"{tag}:key-mismatch", f"rules_dict[{c}] is a rule for {rule.comb_class}")
    if rules_list is not None:
        lhs = [r.comb_class for r in rules_list]
        dup = {c for c in lhs if lhs.count(c) > 1}
        if dup:
            raise Violation(f"{tag}:two-rules-for-one-class", f"{sorted(map(repr, dup))}")
    labels = {}

    def label(c):
        if c not in labels:
            labels[c] = len(labels)
        return labels[c]

    triples = []
    kinds = set()
    for c, rule in rd.items():
        kinds.add(type(rule).__name__)
        for ch in rule.children:
            if ch not in rd:
                if WW.truth_empty(ch):
                    # lazily created empty rule would be fine
                    triples.append((label(ch), (), ()))
                    continue
                raise Violation(f"{tag}:not-closed", f"non-empty class {ch} occurs on the right of {c} but has no rule")
        if isinstance(rule, EquivalencePathRule):
            # interior classes of a path are hidden; nothing else may reference them without a rule
            pass
        check_rule_genuine(rule, allowed, tag)
        check_declared_shifts(rule, tag)
        triples.append(rule_triple(rule, label))
        if isinstance(rule, ReverseRule) or (isinstance(rule, EquivalenceRule) and isinstance(rule.original_rule, ReverseRule)):
            ctx.probe("reverse_rule_in_spec")
            base = rule if isinstance(rule, ReverseRule) else rule.original_rule
            kind = "quotient" if type(base.strategy).__name__ in ("RemoveFront", "SplitZeros") else "complement"
            ctx.probe(kind + "_rule_in_spec")
            if rule.comb_class.extra_parameters:
                ctx.probe(kind + "_with_statistics_in_spec")
            if kind == "quotient" and not any(ch.is_atom() for ch in base.original_rule.children):
                ctx.probe("quotient_of_two_non_atoms_in_spec")
        if type(rule.strategy).__name__ == "ExpandFolded":
            ctx.probe("user_constructor_rule_in_spec")
            if all(WW.truth_empty(ch) for ch in rule.children):
                ctx.probe("rule_with_only_empty_children_in_spec")
        if isinstance(rule, EquivalencePathRule):
            ctx.probe("eqv_path_in_spec")
            if any(isinstance(r, ReverseRule) or (isinstance(r, EquivalenceRule) and isinstance(r.original_rule, ReverseRule)) for r in rule.rules):
                ctx.probe("eqv_path_with_reverse")
            if len(rule.rules) >= 2:
                ctx.probe("eqv_path_len_ge_2")
    f = L.lfp(triples)
    bad = [c for c, l in labels.items() if f.get(l, 0) != L.INF]
    if bad:
        raise Violation(
            f"{tag}:not-productive",
            f"classes {bad[:3]} do not get unboundedly many terms by the reference fixed point; rules={triples}",
        )
    # every class of the spec must be reachable from the root (no junk) - informational
    ctx.stat("spec_rules", len(rd))
    return kinds
