"""Reference pruning, proof-tree validation and minimum proof-tree size on
integer rule dictionaries {label: set of sorted child tuples}.  Shares no code
with the library."""


def gfp_prune(rules):
    """Greatest fixed point: keep a label while it has a rule all of whose
    children are kept."""
    keep = {k for k, rs in rules.items() if rs}
    changed = True
    while changed:
        changed = False
        for k in list(keep):
            if not any(all(c in keep for c in r) for r in rules[k]):
                keep.discard(k)
                changed = True
    return {k: {r for r in rules[k] if all(c in keep for c in r)} for k in keep}


def iterative_derivable(rules, root):
    """Bottom-up closure with the root pre-admitted."""
    v = set() if root is None else {root}
    changed = True
    while changed:
        changed = False
        for k, rs in rules.items():
            if k not in v and any(all(c in v for c in r) for r in rs):
                v.add(k)
                changed = True
    res = {}
    for k, rs in rules.items():
        good = {r for r in rs if all(c in v for c in r)}
        if good:
            res[k] = good
    return res


class BadTree(Exception):
    pass


def tree_size(node):
    return 1 + sum(tree_size(c) for c in node.children)


def validate_tree(node, rules, root, iterative=False, cls=lambda x: x):
    """A tree is valid iff every internal node is a recorded rule, every label is
    expanded with one and the same rule wherever it is expanded, and every leaf is
    a ()-rule label or a label expanded elsewhere in the tree (iterative: the
    root's label only).  ``cls`` maps the tree's labels to the reference's class ids."""
    if cls(node.label) != root:
        raise BadTree(f"tree root is {node.label}, expected {root}")
    expanded = {}
    leaves = []
    stack = [node]
    count = 0
    while stack:
        v = stack.pop()
        count += 1
        if count > 100000:
            raise BadTree("tree too large")
        lab = cls(v.label)
        if v.children:
            key = tuple(sorted(cls(c.label) for c in v.children))
            if key not in rules.get(lab, ()):
                raise BadTree(f"node {lab} -> {key} is not a recorded rule (rules: {sorted(rules.get(lab, ()))})")
            if lab in expanded and expanded[lab] != key:
                raise BadTree(f"label {lab} expanded with two rules {expanded[lab]} and {key}")
            expanded[lab] = key
            stack.extend(v.children)
        else:
            leaves.append(lab)
    for lab in leaves:
        if lab in expanded:
            if iterative and lab != root:
                # shared sub-trees are whole trees in the iterative finder; a bare
                # leaf for an expanded non-root label would be recursion
                raise BadTree(f"iterative tree recurses to {lab}, which is not the root")
            continue
        if () in rules.get(lab, ()):
            continue
        if iterative and lab == root:
            continue
        raise BadTree(f"leaf {lab} has no rule in the tree and no () rule")
    return expanded


def min_tree_size(rules, root, limit=2_000_000):
    """Minimum number of nodes over all proof trees: 1 + sum over expanded labels
    of the arity of the rule chosen for them (exhaustive search with pruning)."""
    best = [None]
    steps = [0]

    def go(todo, chosen, cost):
        steps[0] += 1
        if steps[0] > limit:
            raise BadTree("search limit")
        if best[0] is not None and cost >= best[0]:
            return
        while todo and todo[-1] in chosen:
            todo = todo[:-1]
        if not todo:
            best[0] = cost
            return
        lab = todo[-1]
        rest = todo[:-1]
        for r in sorted(rules.get(lab, ()), key=len):
            chosen[lab] = r
            go(rest + tuple(c for c in r if c not in chosen), chosen, cost + len(r))
            del chosen[lab]

    go((root,), {}, 1)
    return best[0]
