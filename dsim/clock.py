"""
SimClock: the only clock the library reads while a simulated run is active.

It is installed as the module attribute ``time`` of the five library modules
that read the wall clock (see seams.py).  Time only moves when the code looks
at it (every read advances ``now``), so an hour-long expansion slice costs
microseconds.  All randomness comes from the run descriptor's clock seed.

Policies
--------
frozen   tick 0; only explicit jumps (scheduler decisions at packet events)
         move the clock - plus the anti-stall escalation below.
jitter   heavy tailed random tick on every read: produces random slicing of the
         real expand/search loop.

Anti-stall escalation: after ``stall`` consecutive reads without an event
(work packet handed out, rule added) each further read advances by 1ms, 2ms,
4ms, ... so that a pure wait loop (``smallish_random_proof_tree``) always ends.

Fault flavours: forward jump (``jump``), backward step (``skew``: with
probability ``skew_p`` a read returns a value slightly *smaller* than the
previous one; the library only uses differences of reads).
"""

import random


class SimClock:
    # pylint: disable=too-many-instance-attributes
    def __init__(self, policy="frozen", seed=0, stall=8, skew_p=0.0):
        assert policy in ("frozen", "jitter")
        self.policy = policy
        self.seed = seed
        self.rng = random.Random(seed)
        self.start = 1.0e9
        self.now = self.start
        self.pending = 0.0
        self.stall = stall
        self.skew_p = skew_p
        self.reads = 0
        self.reads_since_event = 0
        self.events = 0
        self.jumps = 0
        self.skews = 0
        self.escalations = 0

    # -- the interface the library uses -------------------------------
    def time(self):
        self.reads += 1
        self.reads_since_event += 1
        dt = 0.0
        if self.policy == "jitter":
            r = self.rng.random()
            if r < 0.80:
                dt = 1e-4 * self.rng.random()
            elif r < 0.95:
                dt = 0.05 * self.rng.random()
            elif r < 0.99:
                dt = 0.5 + 4.5 * self.rng.random()
            else:
                dt = 50.0 + 5000.0 * self.rng.random()
        over = self.reads_since_event - self.stall
        if over > 0:
            self.escalations += 1
            dt += 0.001 * (2 ** min(over - 1, 22))
        if self.pending:
            dt += self.pending
            self.pending = 0.0
            self.jumps += 1
        if self.skew_p and dt == 0.0 and self.rng.random() < self.skew_p:
            # small backward step (clock skew)
            self.skews += 1
            dt = -1e-3 * self.rng.random()
        self.now += dt
        return self.now

    def monotonic(self):
        return self.time()

    def perf_counter(self):
        return self.time()

    def sleep(self, secs):
        self.now += max(0.0, secs)

    # -- the interface the simulator uses -----------------------------
    def event(self):
        """Something happened (packet handed out, rule added)."""
        self.events += 1
        self.reads_since_event = 0

    def jump(self, secs):
        """Schedule a forward jump, applied at the next read."""
        self.pending += secs

    def elapsed(self):
        return self.now - self.start

    def clone(self):
        other = SimClock(self.policy, self.seed, self.stall, self.skew_p)
        other.rng.setstate(self.rng.getstate())
        for k in (
            "start",
            "now",
            "pending",
            "reads",
            "reads_since_event",
            "events",
            "jumps",
            "skews",
            "escalations",
        ):
            setattr(other, k, getattr(self, k))
        return other

    def snapshot(self):
        return (round(self.now, 9), self.reads, self.jumps)
