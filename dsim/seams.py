"""
Seams: where the simulator takes hold of the library.  No source change in the
repository is needed; every seam is a module attribute or a constructor
argument that already exists.

  clock  : attribute ``time`` of comb_spec_searcher.{comb_spec_searcher,utils,
           class_db,tree_searcher} and comb_spec_searcher.rule_db.forest
  random : ``choice``/``shuffle`` in tree_searcher, ``randint`` in
           constructor.disjoint, ``random`` in constructor.cartesian and
           strategies.rule
  queue  : CombinatorialSpecificationSearcher(classqueue=TracingQueue(pack))
  ruledb : CombinatorialSpecificationSearcher(ruledb=RecordingRuleDB*())
"""

import importlib
import os
import random as _stdrandom
import sys
import time as _stdtime

REPO = os.environ.get("VERIF_REPO", "/repo")
if REPO not in sys.path:
    sys.path.insert(0, REPO)

import comb_spec_searcher  # noqa: E402  pylint: disable=wrong-import-position

_root = os.path.realpath(os.path.dirname(os.path.dirname(comb_spec_searcher.__file__)))
if _root != os.path.realpath(REPO):
    raise SystemExit(
        f"HARNESS-ERROR comb_spec_searcher imported from {_root}, expected {REPO}"
    )

import logging  # noqa: E402

import logzero  # noqa: E402

# the package resets the level to INFO at import: mute afterwards.  Removing the
# handlers keeps the library's logging calls running (message construction is
# real code) while nothing reaches the terminal even when debug=True raises the level.
logzero.loglevel(logging.CRITICAL)
logzero.logger.handlers = [logging.NullHandler()]
logzero.logger.propagate = False

from comb_spec_searcher.class_queue import DefaultQueue  # noqa: E402
from comb_spec_searcher.rule_db import (  # noqa: E402
    RuleDB,
    RuleDBForest,
    RuleDBForgetStrategy,
)

CLOCK_MODULES = (
    "comb_spec_searcher.comb_spec_searcher",
    "comb_spec_searcher.utils",
    "comb_spec_searcher.class_db",
    "comb_spec_searcher.tree_searcher",
    "comb_spec_searcher.rule_db.forest",
)
# (module, attribute, kind)   kind: 'func:<name>' -> bound method, 'module' -> facade
RNG_SEAMS = (
    ("comb_spec_searcher.tree_searcher", "choice", "func:choice"),
    ("comb_spec_searcher.tree_searcher", "shuffle", "func:shuffle"),
    ("comb_spec_searcher.strategies.constructor.disjoint", "randint", "func:randint"),
    ("comb_spec_searcher.strategies.constructor.cartesian", "random", "module"),
    ("comb_spec_searcher.strategies.rule", "random", "module"),
)

_STD = {
    "time": _stdtime,
    "choice": _stdrandom.choice,
    "shuffle": _stdrandom.shuffle,
    "randint": _stdrandom.randint,
    "random": _stdrandom,
}


def seam_report():
    """Planned seams (DESIGN.md 2.4) that are no longer present under their planned name.
    Informational: seams are located by identity (seams_found), so a moved or renamed
    import is still under the simulator's control."""
    missing = []
    have = {(m.__name__, a) for m, a, _ in seams_found()}
    for modname in CLOCK_MODULES:
        if (modname, "time") not in have:
            missing.append(f"{modname}.time")
    for modname, attr, _ in RNG_SEAMS:
        if (modname, attr) not in have:
            missing.append(f"{modname}.{attr}")
    return missing


def _library_modules():
    """Every module of the library (so that code that moves between modules, or a
    module that starts reading the clock, is still covered)."""
    import pkgutil

    for info in pkgutil.walk_packages(comb_spec_searcher.__path__, "comb_spec_searcher."):
        try:
            importlib.import_module(info.name)
        except Exception:  # pylint: disable=broad-except
            pass
    return [m for name, m in sorted(sys.modules.items()) if name.startswith("comb_spec_searcher") and m is not None]


_TIME_FUNCS = {"time": _stdtime.time, "monotonic": _stdtime.monotonic, "perf_counter": _stdtime.perf_counter, "sleep": _stdtime.sleep}
_RNG_FUNCS = {
    name: getattr(_stdrandom, name)
    for name in ("choice", "shuffle", "randint", "random", "randrange", "sample")
}


def _find_seams():
    """(module, attribute, kind) for every place where a library module holds the
    stdlib clock or random source - as the module object (`import time`) or as an
    imported function (`from random import choice`).  Found by identity, not by
    name, so an import-style refactoring keeps the simulator in control."""
    found = []
    for mod in _library_modules():
        for attr, val in list(vars(mod).items()):
            if val is _stdtime:
                found.append((mod, attr, "clock:module"))
            elif val is _stdrandom:
                found.append((mod, attr, "rng:module"))
            else:
                for fname, f in _TIME_FUNCS.items():
                    if val is f:
                        found.append((mod, attr, "clock:" + fname))
                for fname, f in _RNG_FUNCS.items():
                    if val is f:
                        found.append((mod, attr, "rng:" + fname))
    return found


_SEAMS = None


def seams_found():
    global _SEAMS  # pylint: disable=global-statement
    if _SEAMS is None:
        _SEAMS = _find_seams()
    return _SEAMS


class Installed:
    """Context manager installing a SimClock and a SimRandom at all seams."""

    def __init__(self, clock=None, rng=None):
        self.clock = clock
        self.rng = rng
        self.saved = []

    def _put(self, clock, rng):
        for mod, attr, kind in seams_found():
            what, name = kind.split(":")
            if what == "clock" and clock is not None:
                setattr(mod, attr, clock if name == "module" else getattr(clock, name))
            elif what == "rng" and rng is not None:
                setattr(mod, attr, rng if name == "module" else getattr(rng, name))

    def __enter__(self):
        for mod, attr, _kind in seams_found():
            self.saved.append((mod, attr, getattr(mod, attr)))
        self._put(self.clock, self.rng)
        if self.rng is not None:
            # code reaching the global generator another way stays replayable
            _stdrandom.seed(self.rng.seed)
        return self

    def swap(self, clock=None, rng=None):
        """Replace the installed clock / rng (used by twin executions)."""
        if clock is not None:
            self.clock = clock
        if rng is not None:
            self.rng = rng
        self._put(clock, rng)

    def __exit__(self, *exc):
        for mod, attr, val in reversed(self.saved):
            setattr(mod, attr, val)
        self.saved = []
        return False


# ---------------------------------------------------------------------------
# Event sink: queue / rule-db seams report to whatever listener is current.
# ---------------------------------------------------------------------------


class _Sink:
    def __init__(self):
        self.listener = None

    def emit(self, kind, *payload):
        if self.listener is not None:
            self.listener(kind, *payload)


SINK = _Sink()


_IN_NEXT = [0]  # depth of TracingQueue.__next__ (transient, never pickled)


class TracingQueue(DefaultQueue):
    """DefaultQueue that reports every *external* operation to the current listener.

    Adds no state of its own (pickles exactly like a DefaultQueue with another
    class name), and always calls the real implementation first.  Calls the
    queue makes to its own methods while inside __next__ (marking a label
    not-inferrable when its work is staged, retiring a label after its last
    expansion set) are internal and are not reported.
    """

    def add(self, label):
        super().add(label)
        if not _IN_NEXT[0]:
            SINK.emit("q.add", label)

    def set_not_inferrable(self, label):
        super().set_not_inferrable(label)
        if not _IN_NEXT[0]:
            SINK.emit("q.noinf", label)

    def set_verified(self, label):
        _IN_NEXT[0] += 1  # set_verified delegates to set_stop_yielding: report once
        try:
            super().set_verified(label)
        finally:
            _IN_NEXT[0] -= 1
        if not _IN_NEXT[0]:
            SINK.emit("q.verified", label)

    def set_stop_yielding(self, label):
        super().set_stop_yielding(label)
        if not _IN_NEXT[0]:
            SINK.emit("q.stop", label)

    def __next__(self):
        _IN_NEXT[0] += 1
        try:
            wp = super().__next__()
        except StopIteration:
            _IN_NEXT[0] -= 1
            SINK.emit("q.exhausted")
            raise
        except BaseException:
            _IN_NEXT[0] -= 1
            raise
        _IN_NEXT[0] -= 1
        SINK.emit("q.next", wp)
        return wp


class _RecordingMixin:
    def link_searcher(self, searcher):
        super().link_searcher(searcher)
        SINK.emit("db.link", self, searcher)

    def has_specification(self):
        res = super().has_specification()
        SINK.emit("db.has", self, res)
        return res

    def add(self, start, ends, rule):
        SINK.emit("db.add.pre", self, start, ends, rule)
        super().add(start, ends, rule)
        SINK.emit("db.add", self, start, ends, rule)


class RecordingRuleDB(_RecordingMixin, RuleDB):
    pass


class RecordingRuleDBForget(_RecordingMixin, RuleDBForgetStrategy):
    pass


class RecordingRuleDBForest(_RecordingMixin, RuleDBForest):
    pass


def make_ruledb(kind, recording=True, **kwargs):
    if kind == "default":
        return RecordingRuleDB() if recording else RuleDB()
    if kind == "forget":
        return RecordingRuleDBForget() if recording else RuleDBForgetStrategy()
    if kind == "forest":
        return (RecordingRuleDBForest if recording else RuleDBForest)(**kwargs)
    if kind == "forest_noreverse":
        return (RecordingRuleDBForest if recording else RuleDBForest)(reverse=False)
    raise ValueError(kind)


def reset_library_globals():
    """Process-global caches of the library that grow without bound."""
    try:
        from comb_spec_searcher.utils import TermsCache

        TermsCache.ALL_CACHES.clear()
        TermsCache.KEY_CACHE.clear()
    except (ImportError, AttributeError):
        pass
