"""
Core of the simulator: run context, outcome classification, per-run watchdog.

One run = ``execute(R, ctx)`` of a property module on a run descriptor ``R``
(a JSON-able dict).  ``execute`` raises ``Violation`` when an oracle fails.
Everything else that escapes is classified here:

  * exception whose innermost frame is library code (or third-party code called
    by the library)                                   -> violation ``crash:...``
  * exception whose innermost frame is /verif code     -> harness_error
  * watchdog                                           -> violation ``hang``
    (downgraded by the caller if it does not reproduce)
"""

import hashlib
import json
import os
import signal
import sys
import traceback

VERIF_DIR = os.path.dirname(os.path.dirname(os.path.abspath(__file__)))


class Violation(Exception):
    def __init__(self, oracle, message, detail=None):
        super().__init__(f"{oracle}: {message}")
        self.oracle = oracle
        self.message = message
        self.detail = detail


def pickle_roundtrip(obj, tag):
    """pickle.loads(pickle.dumps(obj)); an exception of the round trip is the library's (a searcher, queue or
    database that cannot be pickled or restored), not the harness's."""
    import pickle

    try:
        return pickle.loads(pickle.dumps(obj))
    except (Hang, MemoryError, RecursionError):
        raise
    except Exception as e:  # pylint: disable=broad-except
        raise Violation(f"{tag}:pickle-round-trip-failed", f"{type(e).__name__}: {str(e)[:300]}") from e


class HarnessError(Exception):
    pass


class Hang(BaseException):
    pass


def seed_hash(*parts):
    h = hashlib.sha256(repr(parts).encode()).digest()
    return int.from_bytes(h[:8], "big")


class Ctx:
    """Per-run recorder.  Never draws randomness, never reads a real clock."""

    def __init__(self, keep_trace=False):
        self._h = hashlib.sha256()
        self.n_events = 0
        self.keep_trace = keep_trace
        self.trace = []
        self.probes = {}
        self.faults = {}
        self.stats = {}
        self.nontrivial = False
        self.state = None
        self.interleaving = None
        self.sim_seconds = 0.0
        self.notes = []

    def ev(self, *items):
        s = repr(items)
        self._h.update(s.encode())
        self._h.update(b"\n")
        self.n_events += 1
        if self.keep_trace and len(self.trace) < 5000:
            self.trace.append(s)

    def probe(self, name, n=1):
        self.probes[name] = self.probes.get(name, 0) + n

    def fault(self, name, n=1):
        self.faults[name] = self.faults.get(name, 0) + n

    def stat(self, name, n=1):
        self.stats[name] = self.stats.get(name, 0) + n

    def set_state(self, obj):
        """Digest of the final state reached (distinct-state measure)."""
        self.state = hashlib.sha256(repr(obj).encode()).hexdigest()[:16]

    def set_interleaving(self, obj):
        self.interleaving = hashlib.sha256(repr(obj).encode()).hexdigest()[:16]

    def digest(self):
        return self._h.hexdigest()[:24]


def _innermost_origin(tb):
    frames = traceback.extract_tb(tb)
    if not frames:
        return "unknown", None
    # innermost frame that is either library or verif code
    for fr in reversed(frames):
        fn = os.path.abspath(fr.filename)
        if fn.startswith(VERIF_DIR + os.sep):
            return "verif", fr
        if "comb_spec_searcher" in fn:
            return "repo", fr
    return "other", frames[-1]


def classify_exception(exc):
    """-> (status, oracle, message)"""
    origin, fr = _innermost_origin(exc.__traceback__)
    where = f"{os.path.basename(fr.filename)}:{fr.name}" if fr else "?"
    text = f"{type(exc).__name__}: {str(exc)[:300]}"
    if isinstance(exc, MemoryError):
        return "violation", "crash:MemoryError", text
    if isinstance(exc, RecursionError):
        return "violation", f"crash:RecursionError@{where}", text
    if origin == "verif":
        return "harness_error", f"harness:{type(exc).__name__}@{where}", text
    return "violation", f"crash:{type(exc).__name__}@{where}", text


def _alarm(_sig, _frm):
    raise Hang()


def run_one(module, R, keep_trace=False, watchdog=60.0):
    """Execute one run descriptor.  Returns a JSON-able outcome dict."""
    from . import seams

    import time as _real  # diagnostics only (never enters a digest)

    ctx = Ctx(keep_trace=keep_trace)
    out = {"seed": R.get("seed"), "index": R.get("index")}
    _t0 = _real.perf_counter()
    old = signal.signal(signal.SIGALRM, _alarm)
    signal.setitimer(signal.ITIMER_REAL, watchdog)
    reclimit = sys.getrecursionlimit()
    try:
        seams.SINK.listener = None
        seams._IN_NEXT[0] = 0  # pylint: disable=protected-access
        module.execute(R, ctx)
        out["status"] = "ok"
    except Violation as v:
        out.update(status="violation", oracle=v.oracle, message=v.message[:2000])
        if v.detail is not None:
            out["detail"] = v.detail
    except HarnessError as e:
        out.update(
            status="harness_error", oracle="harness:explicit", message=str(e)[:2000]
        )
    except Hang:
        out.update(status="violation", oracle="hang", message="watchdog expired")
    except Exception as e:  # pylint: disable=broad-except
        status, oracle, msg = classify_exception(e)
        out.update(status=status, oracle=oracle, message=msg)
        out["traceback"] = traceback.format_exc()[-3000:]
    finally:
        signal.setitimer(signal.ITIMER_REAL, 0)
        signal.signal(signal.SIGALRM, old)
        seams.SINK.listener = None
        sys.setrecursionlimit(reclimit)
        seams.reset_library_globals()
    out["real_s"] = round(_real.perf_counter() - _t0, 4)
    out["digest"] = ctx.digest()
    out["n_events"] = ctx.n_events
    out["probes"] = ctx.probes
    out["faults"] = ctx.faults
    out["stats"] = ctx.stats
    out["nontrivial"] = bool(ctx.nontrivial)
    out["state"] = ctx.state
    out["interleaving"] = ctx.interleaving
    out["sim_seconds"] = ctx.sim_seconds
    if keep_trace:
        out["trace"] = ctx.trace
    return out


def jdump(obj):
    return json.dumps(obj, sort_keys=True, default=str)
