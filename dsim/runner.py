"""
Batch runner: seeds -> run descriptors -> parallel execution -> merged report,
minimisation, replay files, known-finding matching, evidence.
"""

import concurrent.futures as cf
import faulthandler
import importlib
import json
import multiprocessing as mp
import os
import random
import re
import subprocess
import sys
import time as _realtime  # the ONLY real clock: batch budgets and wall_s in evidence

from . import core
from .core import VERIF_DIR, jdump, run_one, seed_hash

DEFAULT_SEED = 20260101
WORKERS = int(os.environ.get("VERIF_WORKERS", "16"))
PY = sys.executable


def load(prop_id):
    return importlib.import_module(f"dsim.props.{prop_id.lower()}")


def descriptor(module, root_seed, index, tier):
    seed = seed_hash(root_seed, module.ID, index)
    rng = random.Random(seed)
    import signal

    def _gen_alarm(_s, _f):
        raise core.HarnessError(f"generator of {module.ID} did not return within 20 s (seed {seed}, index {index})")

    old = signal.signal(signal.SIGALRM, _gen_alarm)
    signal.setitimer(signal.ITIMER_REAL, 20.0)
    try:
        R = module.gen(rng, tier)
    finally:
        signal.setitimer(signal.ITIMER_REAL, 0)
        signal.signal(signal.SIGALRM, old)
    R["property"] = module.ID
    R["seed"] = seed
    R["index"] = index
    R["tier"] = tier
    return R


_SLIM_DROP = ("trace", "traceback", "detail")


# Shared abort flag (inherited through fork): set when a run hangs or when enough
# violations have been seen; workers then skip their remaining indices so that a
# badly broken tree cannot turn a batch into (runs x watchdog) seconds.
ABORT = mp.get_context("fork").Value("i", 0)
HANGS = mp.get_context("fork").Value("i", 0)
MAX_VIOLATIONS = 200
MEM_LIMIT = int(os.environ.get("VERIF_MEM_LIMIT_MB", "3072")) << 20


def _work(prop_id, root_seed, tier, indices, n_samples):
    faulthandler.enable()
    try:
        import resource

        resource.setrlimit(resource.RLIMIT_AS, (MEM_LIMIT, MEM_LIMIT))
    except (ImportError, ValueError, OSError):
        pass
    module = load(prop_id)
    res = []
    for i in indices:
        if ABORT.value:
            break
        try:
            R = descriptor(module, root_seed, i, tier)
        except core.HarnessError as e:
            res.append({"seed": None, "index": i, "status": "harness_error", "oracle": "harness:generator", "message": str(e), "R": {"index": i}, "digest": "", "n_events": 0, "probes": {}, "faults": {}, "stats": {}, "nontrivial": False, "state": None, "interleaving": None, "sim_seconds": 0.0, "real_s": 20.0})
            ABORT.value = 1
            continue
        out = run_one(module, R, watchdog=getattr(module, "WATCHDOG", 60.0))
        if out["status"] != "ok" or i < n_samples:
            out["R"] = R
        if out["status"] == "violation" and out.get("oracle") == "crash:MemoryError":
            ABORT.value = 1
        if out["status"] == "violation" and out.get("oracle") == "hang":
            with HANGS.get_lock():
                HANGS.value += 1
                if HANGS.value >= 3:  # one slow run is not a reason to give up the batch
                    ABORT.value = 1
        res.append(out)
    return res


def _pool():
    return cf.ProcessPoolExecutor(max_workers=WORKERS, mp_context=mp.get_context("fork"))


def run_batch(module, root_seed, tier, n_runs=None, budget_s=None, chunk=None):
    """Run indices 0..n-1 (quick) or as many as fit in budget_s (thorough)."""
    t0 = _realtime.time()
    outs = []
    ABORT.value = 0
    HANGS.value = 0
    chunk = chunk or getattr(module, "CHUNK", 25)
    n_samples = 3
    with _pool() as pool:
        if n_runs is not None and budget_s is None:
            idx = list(range(n_runs))
            futs = [
                pool.submit(_work, module.ID, root_seed, tier, idx[k : k + chunk], n_samples)
                for k in range(0, len(idx), chunk)
            ]
            for f in futs:
                outs.extend(f.result())
                if sum(1 for o in outs if o["status"] != "ok") > MAX_VIOLATIONS:
                    ABORT.value = 1
        else:
            nxt = 0
            pending = set()
            cap = n_runs if n_runs is not None else 10**9
            while True:
                while len(pending) < 2 * WORKERS and nxt < cap and (
                    _realtime.time() - t0 < budget_s
                ):
                    ids = list(range(nxt, min(cap, nxt + chunk)))
                    nxt += len(ids)
                    pending.add(
                        pool.submit(_work, module.ID, root_seed, tier, ids, n_samples)
                    )
                if not pending:
                    break
                done, pending = cf.wait(pending, return_when=cf.FIRST_COMPLETED)
                for f in done:
                    outs.extend(f.result())
                if ABORT.value or sum(1 for o in outs if o["status"] != "ok") > MAX_VIOLATIONS:
                    ABORT.value = 1
                    cap = nxt
    outs.sort(key=lambda o: o["index"])
    return outs, _realtime.time() - t0


# ---------------------------------------------------------------------------
# Minimisation
# ---------------------------------------------------------------------------


def _fails(module, R, oracle):
    out = run_one(module, R, watchdog=getattr(module, "WATCHDOG", 60.0))
    return out["status"] == "violation" and out["oracle"] == oracle


def shrink(module, R, oracle, budget=250):
    """Delta debugging over R['ops'] + module.simplify candidates."""
    spent = [0]
    if oracle in ("hang", "crash:MemoryError"):
        budget = 5  # every candidate costs a full watchdog period
    # minimisation also has a wall-clock budget: a candidate that no longer fails the same way
    # may still run into the watchdog, and 250 of those would take hours
    deadline = _realtime.time() + float(os.environ.get("VERIF_SHRINK_WALL_S", "150"))

    def fails(cand):
        if _realtime.time() > deadline:
            spent[0] = budget  # stops every loop below
            return False
        spent[0] += 1
        return _fails(module, cand, oracle)

    def with_ops(base, ops):
        c = dict(base)
        c["ops"] = ops
        return c

    changed = True
    while changed and spent[0] < budget:
        changed = False
        ops = R.get("ops")
        if isinstance(ops, list) and len(ops) > 1:
            # truncate from the end (binary search on prefix)
            lo, hi = 0, len(ops)
            while lo < hi and spent[0] < budget:
                mid = (lo + hi) // 2
                if fails(with_ops(R, ops[:mid])):
                    hi = mid
                else:
                    lo = mid + 1
            if hi < len(ops) and fails(with_ops(R, ops[:hi])):
                R = with_ops(R, ops[:hi])
                ops = R["ops"]
                changed = True
            # ddmin: remove chunks
            n = 2
            while len(ops) >= 2 and spent[0] < budget:
                size = max(1, len(ops) // n)
                removed = False
                for start in range(0, len(ops), size):
                    cand = ops[:start] + ops[start + size :]
                    if cand and fails(with_ops(R, cand)):
                        ops = cand
                        R = with_ops(R, ops)
                        removed = True
                        changed = True
                        break
                    if spent[0] >= budget:
                        break
                if removed:
                    n = max(n - 1, 2)
                elif size == 1:
                    break
                else:
                    n = min(len(ops), n * 2)
        simplify = getattr(module, "simplify", None)
        if simplify is not None:
            progress = True
            while progress and spent[0] < budget:
                progress = False
                for cand in simplify(R):
                    if spent[0] >= budget:
                        break
                    if fails(cand):
                        R = cand
                        progress = True
                        changed = True
                        break
    return R, spent[0]


# ---------------------------------------------------------------------------
# Known findings
# ---------------------------------------------------------------------------


def load_findings():
    path = os.path.join(VERIF_DIR, "known_findings.json")
    if not os.path.exists(path):
        return []
    with open(path, encoding="utf8") as f:
        return json.load(f).get("findings", [])


def match_finding(findings, prop_id, oracle, message):
    for kf in findings:
        if kf.get("status") != "known":
            continue  # 'fixed' entries suppress nothing
        if prop_id not in kf.get("properties", []):
            continue
        if not re.fullmatch(kf["oracle"], oracle):
            continue
        if kf.get("match") and not re.search(kf["match"], message or ""):
            continue
        return kf
    return None


# ---------------------------------------------------------------------------
# Replay
# ---------------------------------------------------------------------------


def sig_of(oracle):
    return re.sub(r"[^A-Za-z0-9_.-]+", "_", oracle)[:60]


def write_replay(module, R, out, path=None):
    os.makedirs(os.path.join(VERIF_DIR, "replays"), exist_ok=True)
    if path is None:
        path = os.path.join(VERIF_DIR, "replays", f"{module.ID}-{sig_of(out['oracle'])}.json")
    with open(path, "w", encoding="utf8") as f:
        json.dump(
            {
                "property": module.ID,
                "oracle": out["oracle"],
                "message": out.get("message"),
                "digest": out.get("digest"),
                "descriptor": R,
                "trace": out.get("trace", [])[-400:],
            },
            f,
            indent=1,
            sort_keys=True,
            default=str,
        )
    return path


def replay_file(path, quiet=False):
    with open(path, encoding="utf8") as f:
        rep = json.load(f)
    module = load(rep["property"])
    out = run_one(
        module, rep["descriptor"], keep_trace=True, watchdog=getattr(module, "WATCHDOG", 60.0)
    )
    same = out["status"] == "violation" and out["oracle"] == rep["oracle"]
    if not quiet:
        print(f"replay {path}: status={out['status']} oracle={out.get('oracle')}")
        print(f"  message: {out.get('message')}")
        print(f"  digest: {out['digest']} (recorded {rep.get('digest')})")
        if out.get("traceback"):
            print(out["traceback"])
    if same:
        print(f"VIOLATION property={rep['property']} replay={path}")
        print(f"REPLAY-DIGEST {out['digest']}")
        return 1
    if out["status"] == "violation":
        print(f"VIOLATION property={rep['property']} replay={path}")
        print(f"NOTE different oracle on replay: {out['oracle']} (recorded {rep['oracle']})")
        return 1
    if out["status"] == "harness_error":
        print(f"HARNESS-ERROR {out.get('oracle')} {out.get('message')}")
        return 2
    print("replay did not reproduce a violation")
    return 0


def fresh_replay(path):
    """Replay in a fresh interpreter; -> (reproduced, digest)"""
    env = dict(os.environ)
    env["PYTHONHASHSEED"] = "0"
    try:
        p = subprocess.run(
            [PY, os.path.join(VERIF_DIR, "check.py"), "--replay", path, "--quiet"],
            capture_output=True,
            text=True,
            timeout=600,
            env=env,
            check=False,
        )
    except subprocess.TimeoutExpired:
        return False, None
    digest = None
    for line in p.stdout.splitlines():
        if line.startswith("REPLAY-DIGEST"):
            digest = line.split()[1]
    return p.returncode == 1 and digest is not None, digest


# ---------------------------------------------------------------------------
# Full check
# ---------------------------------------------------------------------------


def _merge_counts(outs, key):
    tot = {}
    for o in outs:
        for k, v in o.get(key, {}).items():
            tot[k] = tot.get(k, 0) + v
    return dict(sorted(tot.items()))


def run_check(prop_id, tier, root_seed, budget_s=None, n_runs=None):
    module = load(prop_id)
    from . import seams

    missing = seams.seam_report()
    if tier == "quick":
        n = n_runs or module.QUICK_RUNS
        outs, wall = run_batch(module, root_seed, tier, n_runs=n)
    else:
        b = budget_s or float(os.environ.get("VERIF_BUDGET_S", module.__dict__.get("THOROUGH_BUDGET_S", 600)))
        outs, wall = run_batch(module, root_seed, tier, n_runs=n_runs, budget_s=b)

    findings = load_findings()
    violations = [o for o in outs if o["status"] == "violation"]
    herrs = [o for o in outs if o["status"] == "harness_error"]
    exit_code = 0
    reported = []
    slow = []
    known_hits = {}
    by_sig = {}
    for o in violations:
        by_sig.setdefault(o["oracle"], []).append(o)
    for oracle, group in sorted(by_sig.items()):
        matched = [(g, match_finding(findings, prop_id, oracle, g.get("message"))) for g in group]
        for g, kf in matched:
            if kf is not None:
                # several known findings may share one oracle (K2 and K3 both show as a non-isomorphic pair)
                prev = known_hits.get(kf["id"])
                known_hits[kf["id"]] = (kf, (prev[1] if prev else 0) + 1, prev[2] if prev else g)
        unknown = [g for g, kf in matched if kf is None]
        if not unknown:
            continue
        # not (entirely) known: pick the first one that is not covered
        cand = unknown[0]
        group = unknown  # occurrences reported below count the runs that no known finding covers
        R = cand["R"]
        if oracle == "hang":
            # a watchdog expiry is only a violation if the run still does not finish with four times the time
            # (slow-but-terminating runs are counted as 'slow_runs', not as violations)
            big = 4 * getattr(module, "WATCHDOG", 60.0)
            again = run_one(module, R, watchdog=big)
            if not (again["status"] == "violation" and again["oracle"] == "hang"):
                slow.append({"index": cand["index"], "seed": cand["seed"], "finished_with_watchdog_s": big, "status": again["status"]})
                if again["status"] == "ok":
                    continue
        Rmin, spent = shrink(module, R, oracle)
        out = run_one(module, Rmin, keep_trace=True, watchdog=getattr(module, "WATCHDOG", 60.0))
        if not (out["status"] == "violation" and out["oracle"] == oracle):
            Rmin = R
            out = run_one(module, R, keep_trace=True, watchdog=getattr(module, "WATCHDOG", 60.0))
        path = write_replay(module, Rmin, out) if out["status"] == "violation" else None
        ok, _ = fresh_replay(path) if path else (False, None)
        if not ok:
            herrs.append(
                {
                    "status": "harness_error",
                    "oracle": "harness:nondeterministic",
                    "message": f"violation {oracle} (seed {cand['seed']}) did not reproduce in a fresh process",
                    "index": cand["index"],
                    "seed": cand["seed"],
                }
            )
            continue
        kf2 = match_finding(findings, prop_id, out["oracle"], out.get("message"))
        if kf2 is not None:
            known_hits[kf2["id"]] = (kf2, len(group), out)
            continue
        exit_code = 1
        reported.append(
            {
                "oracle": oracle,
                "count": len(group),
                "seed": cand["seed"],
                "index": cand["index"],
                "replay": path,
                "message": out.get("message"),
                "shrink_executions": spent,
            }
        )
        print(f"VIOLATION property={prop_id} replay={path}")
        print(f"  oracle={oracle} seed={cand['seed']} index={cand['index']} occurrences={len(group)}")
        print(f"  {out.get('message')}")
    for kid, (kf, cnt, _first) in sorted(known_hits.items()):
        print(f"KNOWN-FINDING: property={prop_id} {kf['what']} [{kid}; {cnt} runs]")
    if herrs and exit_code == 0:
        exit_code = 2
    for h in herrs[:5]:
        print(f"HARNESS-ERROR property={prop_id} {h.get('oracle')} seed={h.get('seed')} index={h.get('index')}: {h.get('message')}")
        if h.get("traceback"):
            print(h["traceback"])

    ev = build_evidence(module, tier, root_seed, outs, wall, reported, known_hits, herrs, missing)
    ev["coverage"]["slow_runs_not_hangs"] = slow
    os.makedirs(os.path.join(VERIF_DIR, "evidence"), exist_ok=True)
    with open(os.path.join(VERIF_DIR, "evidence", f"{prop_id}.json"), "w", encoding="utf8") as f:
        json.dump(ev, f, indent=1, sort_keys=True, default=str)
    c = ev["coverage"]
    print(
        f"{prop_id} {tier}: runs={c['evaluations']} distinct_nontrivial={c['distinct_nontrivial']} "
        f"violations={len(reported)} known={len(known_hits)} harness_errors={len(herrs)} "
        f"wall={wall:.1f}s runs/h={c['runs_per_hour']:.0f} seed={root_seed}"
    )
    return exit_code


def build_evidence(module, tier, root_seed, outs, wall, reported, known_hits, herrs, missing):
    nontriv_states = set()
    states = set()
    inter = set()
    for o in outs:
        if o.get("state"):
            states.add(o["state"])
            if o.get("nontrivial"):
                nontriv_states.add(o["state"])
        if o.get("interleaving"):
            inter.add(o["interleaving"])
    samples = [o["R"] for o in outs if "R" in o and o["status"] == "ok"][:3]
    if not samples:
        samples = [o["R"] for o in outs if "R" in o][:1]
    sim = sum(o.get("sim_seconds", 0.0) for o in outs)
    faults = _merge_counts(outs, "faults")
    fault_free = sum(1 for o in outs if not o.get("faults"))
    cov = {
        "evaluations": len(outs),
        "distinct_nontrivial": len(nontriv_states),
        "rule": module.RULE,
        "samples": samples,
        "runs_per_hour": (len(outs) / wall * 3600.0) if wall > 0 else 0.0,
        "seeds_per_hour": (len(outs) / wall * 3600.0) if wall > 0 else 0.0,
        "simulated_seconds_covered": sim,
        "fault_fired": faults,
        "fault_free_runs": fault_free,
        "faulty_runs": len(outs) - fault_free,
        "probes": _merge_counts(outs, "probes"),
        "stats": _merge_counts(outs, "stats"),
        "distinct_states": len(states),
        "distinct_interleavings": len(inter),
        "real_vs_stub": getattr(module, "REAL_VS_STUB", {}),
        "seams_missing": missing,
        "workers": WORKERS,
        "exhaustive": False,
        "known_findings_hit": {k: v[1] for k, v in known_hits.items()},
        "reported": reported,
        "harness_errors": len(herrs),
        "slowest_runs_real_s": sorted(((o.get("real_s", 0), o["index"]) for o in outs), reverse=True)[:5],
    }
    st_path = os.path.join(VERIF_DIR, "selftest_determinism.json")
    if os.path.exists(st_path):
        with open(st_path, encoding="utf8") as f:
            cov["last_recorded_determinism_selftest"] = dict(
                json.load(f).get(module.ID, {}), note="recorded by `check.py --selftest determinism`, not re-run by this check"
            )
    extra = getattr(module, "evidence_extra", None)
    if extra is not None:
        cov.update(extra(outs))
    return {
        "property_id": module.ID,
        "tier": tier,
        "seed": root_seed,
        "level": getattr(module, "LEVEL", "exploration"),
        "coverage": cov,
        "assumptions": getattr(module, "ASSUMPTIONS", []),
        "wall_s": round(wall, 3),
        "violations": len(reported),
    }


# ---------------------------------------------------------------------------
# Determinism self-test
# ---------------------------------------------------------------------------


def digests(prop_id, root_seed, tier, n):
    module = load(prop_id)
    outs, _ = run_batch(module, root_seed, tier, n_runs=n)
    return {str(o["index"]): [o["digest"], o["status"], o.get("oracle")] for o in outs}


def selftest_determinism(prop_ids, root_seed, n=200):
    bad = 0
    record = {}
    for pid in prop_ids:
        res = []
        for hashseed, workers in (("0", "16"), ("12345", "3")):
            env = dict(os.environ)
            env["PYTHONHASHSEED"] = hashseed
            env["VERIF_WORKERS"] = workers
            env["VERIF_SEED"] = str(root_seed)
            p = subprocess.run(
                [PY, os.path.join(VERIF_DIR, "check.py"), pid, "--digests", str(n)],
                capture_output=True,
                text=True,
                env=env,
                timeout=3600,
                check=False,
            )
            line = [l for l in p.stdout.splitlines() if l.startswith("DIGESTS ")]
            if not line:
                print(f"selftest {pid}: no digests (rc={p.returncode})\n{p.stdout[-2000:]}\n{p.stderr[-2000:]}")
                bad += 1
                break
            res.append(json.loads(line[0][8:]))
        if len(res) == 2:
            mism = [i for i in res[0] if res[0][i] != res[1].get(i)]
            print(f"selftest determinism {pid}: compared={len(res[0])} mismatches={len(mism)} {mism[:5]}")
            bad += len(mism)
            record[pid] = {"runs_compared": len(res[0]), "mismatches": len(mism), "seed": root_seed,
                           "configurations": "fresh interpreters: PYTHONHASHSEED=0 with 16 workers vs PYTHONHASHSEED=12345 with 3 workers"}
    path = os.path.join(VERIF_DIR, "selftest_determinism.json")
    old = {}
    if os.path.exists(path):
        with open(path, encoding="utf8") as f:
            old = json.load(f)
    old.update(record)
    with open(path, "w", encoding="utf8") as f:
        json.dump(old, f, indent=1, sort_keys=True)
    return 1 if bad else 0
