"""
SimRandom: the only random source the library reads during a simulated run.

Installed at the names the library imported from ``random`` (seams.py).

Policies
--------
seeded    own random.Random(seed)
first     always the lowest admissible outcome (adversarial extreme)
last      always the highest admissible outcome
scripted  outcomes come from an explicit script (list of indices); decisions
          past the end of the script take outcome 0.  Every decision is logged
          as (number_of_outcomes, chosen_index) so a depth-first explorer can
          enumerate the whole decision tree with exact probabilities.
"""

import random as _stdrandom
from fractions import Fraction


class ScriptExhausted(Exception):
    pass


class SimRandom:
    def __init__(self, policy="seeded", seed=0, script=None):
        assert policy in ("seeded", "first", "last", "scripted")
        self.policy = policy
        self.seed = seed
        self.rng = _stdrandom.Random(seed)
        self.script = list(script or [])
        self.pos = 0
        self.decisions = []  # (k, idx)
        self.draws = 0

    def _pick(self, k):
        """Pick an index in range(k)."""
        assert k >= 1
        self.draws += 1
        if self.policy == "seeded":
            idx = self.rng.randrange(k)
        elif self.policy == "first":
            idx = 0
        elif self.policy == "last":
            idx = k - 1
        else:
            if self.pos < len(self.script):
                idx = self.script[self.pos]
                if idx >= k:
                    raise ScriptExhausted(f"script index {idx} out of range {k}")
            else:
                idx = 0
            self.pos += 1
            self.decisions.append((k, idx))
        return idx

    # -- random module interface ---------------------------------------
    def choice(self, seq):
        if not seq:
            raise IndexError("Cannot choose from an empty sequence")
        return seq[self._pick(len(seq))]

    def randint(self, a, b):
        if b < a:
            raise ValueError("empty range for randint()")
        return a + self._pick(b - a + 1)

    def randrange(self, start, stop=None):
        if stop is None:
            start, stop = 0, start
        if stop <= start:
            raise ValueError("empty range for randrange()")
        return start + self._pick(stop - start)

    def random(self):
        # 2**20 equiprobable outcomes is plenty for the library's uses (none today)
        return self._pick(1 << 20) / float(1 << 20)

    def shuffle(self, lst):
        # Fisher-Yates driven by _pick, so every policy applies
        for i in range(len(lst) - 1, 0, -1):
            j = self._pick(i + 1)
            lst[i], lst[j] = lst[j], lst[i]

    def sample(self, population, k):
        pool = list(population)
        res = []
        for _ in range(k):
            res.append(pool.pop(self._pick(len(pool))))
        return res

    # -- simulator interface -------------------------------------------
    def probability(self):
        p = Fraction(1)
        for k, _ in self.decisions:
            p /= k
        return p

    def clone(self):
        other = SimRandom(self.policy, self.seed, self.script)
        other.rng.setstate(self.rng.getstate())
        other.pos = self.pos
        other.decisions = list(self.decisions)
        other.draws = self.draws
        return other


def next_script(decisions):
    """Depth-first successor of a fully played decision list, or None."""
    dec = list(decisions)
    while dec:
        k, idx = dec[-1]
        if idx + 1 < k:
            return [i for _, i in dec[:-1]] + [idx + 1]
        dec.pop()
    return None
