"""
World W: words over a small alphabet that start with a prefix and avoid a set of
consecutive patterns, optionally carrying statistics (number of occurrences of
tracked letters).  The README's universe, generalised.  Letters are ints, so
every hash is independent of PYTHONHASHSEED.

Ground truth is brute force (``truth_*`` below): it enumerates alphabet^n and
filters, and shares no code with the library's counting.

Every strategy is a genuine bijection (checked by ``selfcheck_rule``), carries
an applicability mask (a seeded predicate that makes it *not apply* - always
legal) and buggify switches (lazy vs eager does-not-apply).
"""

import hashlib
from collections import Counter, defaultdict
from itertools import product

from .. import seams  # noqa: F401

from comb_spec_searcher import (
    AtomStrategy,
    CartesianProductStrategy,
    CombinatorialClass,
    CombinatorialObject,
    DisjointUnionStrategy,
    StrategyFactory,
    StrategyPack,
    SymmetryStrategy,
    VerificationStrategy,
)
from comb_spec_searcher.exception import InvalidOperationError, StrategyDoesNotApply
from comb_spec_searcher.strategies.constructor.base import Constructor
from comb_spec_searcher.strategies.rule import Rule
from comb_spec_searcher.strategies.strategy import Strategy

# the random source used by world samplers (FiatVerified, WordAtom); set per run
CURRENT_RNG = None
# (repr(strategy), class key) for every application of a world strategy / factory
# to a class since the simulator last cleared it (C17: "was the packet processed?")
CALL_LOG = []


class Wd(tuple, CombinatorialObject):
    """A word: tuple of ints."""

    def size(self):
        return tuple.__len__(self)


MARK0 = 100  # marked words: (MARK0 + mark, *letters); the mark does not count towards the size


class MWd(tuple, CombinatorialObject):
    """A marked word."""

    def size(self):
        return tuple.__len__(self) - 1


def _contains(word, patt):
    lp = len(patt)
    return any(word[i : i + lp] == patt for i in range(len(word) - lp + 1))


class W(CombinatorialClass):
    """Words over `alphabet` with prefix `prefix` avoiding `patterns` as factors.

    tracked: tuple of letters; statistic i counts occurrences of tracked[i]."""

    COMPRESS = False

    def __init__(self, prefix, patterns, alphabet, just_prefix=False, tracked=(), start_set=None, marks=1):
        # marks > 1: every word of the class comes in `marks` marked copies (ForgetMark undoes it)
        self.marks = marks
        self.alphabet = tuple(sorted(set(alphabet)))
        self.prefix = Wd(prefix)
        self.patterns = tuple(sorted(set(tuple(p) for p in patterns)))
        self.just_prefix = bool(just_prefix)
        self.tracked = tuple(tracked)
        # start_set: if not None, a non-empty word must start with one of these letters
        # (only used with an empty prefix; produced by SplitZeros)
        self.start_set = None if start_set is None or len(self.prefix) > 0 or self.just_prefix else tuple(sorted(set(start_set)))
        assert all(l in self.alphabet for l in self.prefix), "prefix not over alphabet"
        assert all(len(p) >= 1 for p in self.patterns)

    # -- identity --------------------------------------------------------
    def key(self):
        if self.marks > 1:
            return (self.prefix, self.patterns, self.alphabet, self.just_prefix, self.tracked, self.start_set, self.marks)
        if self.start_set is None:
            return (self.prefix, self.patterns, self.alphabet, self.just_prefix, self.tracked)
        return (self.prefix, self.patterns, self.alphabet, self.just_prefix, self.tracked, self.start_set)

    def __eq__(self, other):
        return type(other) is type(self) and self.key() == other.key()

    def __hash__(self):
        return hash(self.key())

    def __repr__(self):
        extra = "" if self.start_set is None else f", start_set={self.start_set}"
        if self.marks > 1:
            extra += f", marks={self.marks}"
        return f"{type(self).__name__}({tuple(self.prefix)}, {self.patterns}, {self.alphabet}, {self.just_prefix}, {self.tracked}{extra})"

    def __str__(self):
        return repr(self)

    def replace(self, **kw):
        d = dict(
            prefix=self.prefix,
            patterns=self.patterns,
            alphabet=self.alphabet,
            just_prefix=self.just_prefix,
            tracked=self.tracked,
            start_set=self.start_set,
            marks=self.marks,
        )
        d.update(kw)
        return type(self)(**d)

    def to_jsonable(self):
        d = super().to_jsonable()
        d.update(
            prefix=list(self.prefix),
            patterns=[list(p) for p in self.patterns],
            alphabet=list(self.alphabet),
            just_prefix=int(self.just_prefix),
            tracked=list(self.tracked),
            start_set=None if self.start_set is None else list(self.start_set),
            marks=self.marks,
        )
        return d

    @classmethod
    def from_dict(cls, d):
        return cls(d["prefix"], d["patterns"], d["alphabet"], bool(d["just_prefix"]), d["tracked"], d.get("start_set"), d.get("marks", 1))

    # -- what the engine needs -------------------------------------------
    def is_empty(self):
        return any(_contains(self.prefix, p) for p in self.patterns)

    def is_atom(self):
        return self.just_prefix and self.marks == 1

    def minimum_size_of_object(self):
        return len(self.prefix)

    @property
    def extra_parameters(self):
        return tuple(f"k{i}" for i in range(len(self.tracked)))

    def get_minimum_value(self, parameter):
        i = int(parameter[1:])
        return self.prefix.count(self.tracked[i])

    def possible_parameters(self, n):
        names = self.extra_parameters
        for vals in product(range(n + 1), repeat=len(names)):
            yield dict(zip(names, vals))

    def get_parameters(self, obj):
        return tuple(obj.count(l) for l in self.tracked)

    def objects_of_size(self, n, **parameters):
        want = None
        if parameters:
            want = tuple(parameters[k] for k in self.extra_parameters)
        for w in truth_objects(self, n):
            if want is None or self.get_parameters(w) == want:
                yield w


class WC(W):
    """Same class, stored compressed by the class database."""

    COMPRESS = True

    def to_bytes(self):
        return repr(self.key()).encode()

    @classmethod
    def from_bytes(cls, b):
        # pylint: disable=eval-used
        return cls(*eval(b.decode(), {"__builtins__": {}}, {}))


# ---------------------------------------------------------------------------
# Ground truth (brute force, memoised per process)
# ---------------------------------------------------------------------------

_OBJ_CACHE = {}
_MAX_CACHE = 200000


def truth_objects(c, n):
    """All words of the class of length n, by brute force, in lexicographic order."""
    k = (c.prefix, c.patterns, c.alphabet, c.just_prefix, n, c.start_set, c.marks)
    res = _OBJ_CACHE.get(k)
    if res is None and c.marks > 1:
        base = truth_objects(c.replace(marks=1), n)
        res = tuple(MWd((MARK0 + i,) + tuple(w)) for w in base for i in range(c.marks))
        _OBJ_CACHE[k] = res
    if res is None:
        res = []
        lp = len(c.prefix)
        if c.just_prefix:
            if n == lp and not any(_contains(c.prefix, p) for p in c.patterns):
                res.append(Wd(c.prefix))
        elif n >= lp:
            for tail in product(c.alphabet, repeat=n - lp):
                w = Wd(tuple(c.prefix) + tail)
                if c.start_set is not None and w and w[0] not in c.start_set:
                    continue
                if not any(_contains(w, p) for p in c.patterns):
                    res.append(w)
        if len(_OBJ_CACHE) > _MAX_CACHE:
            _OBJ_CACHE.clear()
        res = tuple(res)
        _OBJ_CACHE[k] = res
    return res


def truth_terms(c, n):
    t = Counter()
    for w in truth_objects(c, n):
        t[tuple(w.count(l) for l in c.tracked)] += 1
    return t


def truth_empty(c, upto=None):
    """True emptiness: the prefix itself is the smallest word of the class."""
    return len(truth_objects(c, len(c.prefix))) == 0


# ---------------------------------------------------------------------------
# Applicability masks and buggify switches
# ---------------------------------------------------------------------------


def _h(*parts):
    return int.from_bytes(hashlib.sha256(repr(parts).encode()).digest()[:4], "big")


class MaskMixin:
    """mask = None | [salt, pct, maxlen] | [salt, pct, maxlen, deny]: applies iff
    hash(class, salt) % 100 < pct, len(prefix) <= maxlen and the prefix is not in deny.  lazy: raise StrategyDoesNotApply lazily (from
    rule.children) instead of eagerly (from strategy(comb_class))."""

    mask = None
    lazy = False

    def masked(self, c):
        if c.marks > 1 and not isinstance(self, ForgetMark):
            return True  # marked classes are only understood by ForgetMark
        m = self.mask
        if m is None:
            return False
        salt, pct, maxlen = m[:3]
        if len(m) > 3 and not c.just_prefix and list(c.prefix) in [list(x) for x in m[3]]:
            return True  # explicit deny list of prefixes (directed scenarios)
        if len(c.prefix) > maxlen:
            return True
        return _h(c.key(), salt) % 100 >= pct

    def applies(self, c):
        return self.decomposition_function(c) is not None

    def __call__(self, comb_class, children=None):
        CALL_LOG.append((repr(self), comb_class.key()))
        if children is None and self.lazy:
            # buggify: legal alternative - the rule finds out lazily
            return Rule(self, comb_class)
        return super().__call__(comb_class, children)

    def _base_json(self):
        d = super().to_jsonable()
        d["mask"] = self.mask
        d["lazy"] = self.lazy
        return d

    def __repr__(self):
        extra = ""
        if self.mask is not None:
            extra += f",mask={tuple(self.mask)}"
        if self.lazy:
            extra += ",lazy"
        return f"{type(self).__name__}({self._args_repr()}{extra})"

    def __str__(self):
        return repr(self)

    def formal_step(self):
        return repr(self)


def _ident(c, children):
    return tuple({k: k for k in c.extra_parameters} for _ in children)


class Expand(MaskMixin, DisjointUnionStrategy):
    """W(p) = {p v : |v| < d}  +  sum over |u| = d of W(p u)."""

    def __init__(self, d=1, mask=None, lazy=False, drop=False, atom_last=False):
        super().__init__(ignore_parent=False, inferrable=True, possibly_empty=True, workable=True)
        self.d = d
        self.mask = mask
        self.lazy = lazy
        # atom_last: the atoms come after the longer prefixes (the first child can then be empty)
        self.atom_last = atom_last
        # drop: an atom child in which no tracked letter occurs carries no statistics
        # (the parent's statistics are then unmapped on that child and must be zero there)
        self.drop = drop

    def _args_repr(self):
        return f"d={self.d}" + (",drop" if self.drop else "") + (",atom_last" if self.atom_last else "")

    def _atom(self, c, word):
        if self.drop and c.tracked and not any(l in word for l in c.tracked):
            return c.replace(prefix=word, just_prefix=True, tracked=(), start_set=None)
        return c.replace(prefix=word, just_prefix=True, start_set=None)

    def decomposition_function(self, c):
        if c.just_prefix or c.is_empty() or self.masked(c):
            return None
        ok = lambda v: c.start_set is None or not v or len(c.prefix) > 0 or v[0] in c.start_set  # noqa: E731
        atoms = []
        for l in range(self.d):
            for v in product(c.alphabet, repeat=l):
                if ok(v):
                    atoms.append(self._atom(c, tuple(c.prefix) + v))
        longer = []
        for u in product(c.alphabet, repeat=self.d):
            if ok(u):
                longer.append(c.replace(prefix=tuple(c.prefix) + u, start_set=None))
        return tuple(longer + atoms) if self.atom_last else tuple(atoms + longer)

    def extra_parameters(self, comb_class, children=None):
        if children is None:
            children = self.decomposition_function(comb_class)
            if children is None:
                raise StrategyDoesNotApply("Strategy does not apply")
        return tuple({k: k for k in comb_class.extra_parameters} if ch.tracked == comb_class.tracked else {} for ch in children)

    def forward_map(self, comb_class, obj, children=None):
        if children is None:
            children = self.decomposition_function(comb_class)
        res = [None] * len(children)
        for i, ch in enumerate(children):
            if ch.just_prefix:
                if tuple(obj) == tuple(ch.prefix):
                    res[i] = obj
                    break
            elif tuple(obj[: len(ch.prefix)]) == tuple(ch.prefix):
                res[i] = obj
                break
        return tuple(res)

    def to_jsonable(self):
        d = self._base_json()
        d["d"] = self.d
        d["drop"] = self.drop
        d["atom_last"] = self.atom_last
        return d

    @classmethod
    def from_dict(cls, d):
        return cls(d["d"], d.get("mask"), d.get("lazy", False), d.get("drop", False), d.get("atom_last", False))


class RemoveFront(MaskMixin, CartesianProductStrategy):
    """W(p) = {p[:s]} x W(p[s:]) for the largest safe s >= 1 (README rule).

    split: when the removed front is a square u u, it is split into two equal atoms:
           {u} x {u} x W(p[s:])  (a rule with a repeated child).
    merge: when the class tracks the same letter twice, the children track it once
           (two parent statistics mapped onto one child statistic, in a product)."""

    def __init__(self, mask=None, lazy=False, split=False, merge=False, split3=False, pe=False):
        # pe: the product declares possibly_empty=True (always truthful; no factor is ever empty here)
        super().__init__(ignore_parent=True, inferrable=False, possibly_empty=pe, workable=True)
        self.pe = pe
        self.mask = mask
        self.lazy = lazy
        self.split = split
        self.merge = merge
        # split3: a removed front of length >= 2 is split into its first letter and the remainder:
        # {a} x {u} x W(p[s:]) - a product of three different classes with three different shifts
        self.split3 = split3

    def _args_repr(self):
        return ",".join(x for x, on in (("split", self.split), ("merge", self.merge), ("split3", self.split3), ("pe", self.pe)) if on)

    @staticmethod
    def safe_index(c):
        prefix, patterns = tuple(c.prefix), c.patterns
        m = max((len(p) for p in patterns), default=1)
        safe = max(0, len(prefix) - m + 1)
        for i in range(safe, len(prefix)):
            end = prefix[i:]
            if any(end == p[: len(end)] for p in patterns):
                break
            safe = i + 1
        return safe

    def _merging(self, c):
        return self.merge and len(c.tracked) == 2 and c.tracked[0] == c.tracked[1]

    def decomposition_function(self, c):
        if c.just_prefix or c.is_empty() or self.masked(c):
            return None
        s = self.safe_index(c)
        if s <= 0:
            return None
        tracked = c.tracked[:1] if self._merging(c) else c.tracked
        front = tuple(c.prefix[:s])
        rest = c.replace(prefix=c.prefix[s:], tracked=tracked)
        if self.split and s % 2 == 0 and front[: s // 2] == front[s // 2 :]:
            half = c.replace(prefix=front[: s // 2], just_prefix=True, tracked=tracked)
            return (half, half, rest)
        if self.split3 and s >= 2:
            return (
                c.replace(prefix=front[:1], just_prefix=True, tracked=tracked),
                c.replace(prefix=front[1:], just_prefix=True, tracked=tracked),
                rest,
            )
        return (c.replace(prefix=front, just_prefix=True, tracked=tracked), rest)

    def extra_parameters(self, comb_class, children=None):
        if children is None:
            children = self.decomposition_function(comb_class)
            if children is None:
                raise StrategyDoesNotApply("Strategy does not apply")
        if self._merging(comb_class):
            return tuple({"k0": "k0", "k1": "k0"} for _ in children)
        return _ident(comb_class, children)

    def backward_map(self, comb_class, objs, children=None):
        yield Wd(sum((tuple(o) for o in objs), ()))

    def forward_map(self, comb_class, obj, children=None):
        if children is None:
            children = self.decomposition_function(comb_class)
        res = []
        pos = 0
        for ch in children[:-1]:
            res.append(Wd(obj[pos : pos + len(ch.prefix)]))
            pos += len(ch.prefix)
        res.append(Wd(obj[pos:]))
        return tuple(res)

    def to_jsonable(self):
        d = self._base_json()
        d["split"] = self.split
        d["merge"] = self.merge
        d["split3"] = self.split3
        d["pe"] = self.pe
        return d

    @classmethod
    def from_dict(cls, d):
        return cls(d.get("mask"), d.get("lazy", False), d.get("split", False), d.get("merge", False), d.get("split3", False), d.get("pe", False))


class SplitZeros(MaskMixin, CartesianProductStrategy):
    """All words over an alphabet containing 0 (no patterns, no prefix) =
    (words over {0}) x (words that are empty or start with another letter).
    A product of two classes neither of which is an atom."""

    def __init__(self, mask=None, lazy=False):
        super().__init__(ignore_parent=False, inferrable=False, possibly_empty=False, workable=True)
        self.mask = mask
        self.lazy = lazy

    def _args_repr(self):
        return ""

    def decomposition_function(self, c):
        if c.just_prefix or c.patterns or c.start_set is not None or self.masked(c):
            return None
        if any(l != 0 for l in c.prefix):
            return None
        if 0 not in c.alphabet or len(c.alphabet) < 2:
            return None
        # 0^k (all words) = (0^k followed by zeros) x (empty, or starting with another letter)
        zeros = c.replace(alphabet=(0,))
        rest = c.replace(prefix=(), start_set=tuple(l for l in c.alphabet if l != 0))
        return (zeros, rest)

    def extra_parameters(self, comb_class, children=None):
        if children is None:
            children = self.decomposition_function(comb_class)
            if children is None:
                raise StrategyDoesNotApply("Strategy does not apply")
        return _ident(comb_class, children)

    def backward_map(self, comb_class, objs, children=None):
        yield Wd(tuple(objs[0]) + tuple(objs[1]))

    def forward_map(self, comb_class, obj, children=None):
        k = 0
        while k < len(obj) and obj[k] == 0:
            k += 1
        return (Wd(obj[:k]), Wd(obj[k:]))

    def shifts(self, comb_class, children=None):
        return super().shifts(comb_class, children)

    def to_jsonable(self):
        return self._base_json()

    @classmethod
    def from_dict(cls, d):
        return cls(d.get("mask"), d.get("lazy", False))


class Multiply(Constructor):
    """parent = m marked copies of the child: a constructor whose backward map is m-to-one."""

    def __init__(self, m, names):
        self.m = m
        self.names = names

    def get_equation(self, lhs_func, rhs_funcs):
        import sympy

        return sympy.Eq(lhs_func, self.m * rhs_funcs[0])

    def reliance_profile(self, n, **parameters):
        return ({"n": (n,)},)

    def get_terms(self, parent_terms, subterms, n):
        return Counter({k: v * self.m for k, v in subterms[0](n).items()})

    def get_sub_objects(self, subobjs, n):
        for params, objs in subobjs[0](n).items():
            yield params, (objs,)

    def random_sample_sub_objects(self, parent_count, subsamplers, subrecs, n, **parameters):
        return (subsamplers[0](n=n, **parameters),)

    def equiv(self, other, data=None):
        return isinstance(other, Multiply) and other.m == self.m, None


class ForgetMark(MaskMixin, Strategy):
    """Marked words -> words: the forward map forgets the mark, so every word has `marks`
    preimages (the sampler has to pick one of them uniformly)."""

    def __init__(self, mask=None, lazy=False):
        super().__init__(ignore_parent=True, inferrable=False, possibly_empty=False, workable=True)
        self.mask = mask
        self.lazy = lazy

    def _args_repr(self):
        return ""

    def can_be_equivalent(self):
        return False

    def is_two_way(self, comb_class):
        return False

    def is_reversible(self, comb_class):
        return False

    def shifts(self, comb_class, children=None):
        return (0,)

    def decomposition_function(self, c):
        if c.marks <= 1 or c.is_empty() or self.masked(c):
            return None
        return (c.replace(marks=1),)

    def constructor(self, comb_class, children=None):
        return Multiply(comb_class.marks, comb_class.extra_parameters)

    def reverse_constructor(self, idx, comb_class, children=None):
        raise NotImplementedError

    def extra_parameters(self, comb_class, children=None):
        return ({k: k for k in comb_class.extra_parameters},)

    def backward_map(self, comb_class, objs, children=None):
        for i in range(comb_class.marks):
            yield MWd((MARK0 + i,) + tuple(objs[0]))

    def forward_map(self, comb_class, obj, children=None):
        return (Wd(obj[1:]),)

    def to_jsonable(self):
        return self._base_json()

    @classmethod
    def from_dict(cls, d):
        return cls(d.get("mask"), d.get("lazy", False))


class PlusAtom(Constructor):
    """parent = {one word of the given size and statistics} + disjoint union of the children (identity
    parameter maps): a user-defined constructor with several children in which the parent is non-empty
    even when every child is empty."""

    def __init__(self, size, params, n_children):
        self.size = size
        self.params = tuple(params)
        self.n_children = n_children

    def get_equation(self, lhs_func, rhs_funcs):
        import sympy

        atom = sympy.abc.x**self.size
        for i, v in enumerate(self.params):
            atom *= sympy.var(f"k{i}") ** v
        return sympy.Eq(lhs_func, atom + sum(rhs_funcs))

    def reliance_profile(self, n, **parameters):
        return tuple({"n": (n,)} for _ in range(self.n_children))

    def get_terms(self, parent_terms, subterms, n):
        res = Counter()
        for st in subterms:
            for k, v in st(n).items():
                res[k] += v
        if n == self.size:
            res[self.params] += 1
        return res

    def get_sub_objects(self, subobjs, n):
        res = [[None] for _ in range(self.n_children)]
        for i, subobj in enumerate(subobjs):
            for param, objs in subobj(n).items():
                res[i] = objs
                yield param, tuple(res)
            res[i] = [None]
        if n == self.size:
            yield self.params, tuple([None] for _ in range(self.n_children))

    def random_sample_sub_objects(self, parent_count, subsamplers, subrecs, n, **parameters):
        choice = CURRENT_RNG.randint(1, parent_count)
        total = 0
        if n == self.size and tuple(parameters[f"k{i}"] for i in range(len(self.params))) == self.params:
            total += 1
            if choice <= total:
                return tuple(None for _ in range(self.n_children))
        for idx, (rec, sampler) in enumerate(zip(subrecs, subsamplers)):
            total += rec(n=n, **parameters)
            if choice <= total:
                return tuple(None for _ in range(idx)) + (sampler(n=n, **parameters),) + tuple(None for _ in range(self.n_children - idx - 1))
        raise RuntimeError("PlusAtom: nothing chosen")

    def equiv(self, other, data=None):
        return isinstance(other, PlusAtom) and (other.size, other.n_children) == (self.size, self.n_children), None


class ExpandFolded(MaskMixin, Strategy):
    """W(p) = {p} + sum over letters a of W(p a), with the atom {p} folded into the constructor (PlusAtom)
    instead of being a child: every child may be empty while the parent is not; with a one-letter alphabet
    the rule is unary with a possibly empty child.  One-way, not reversible, never an equivalence."""

    def __init__(self, mask=None, lazy=False):
        super().__init__(ignore_parent=False, inferrable=True, possibly_empty=True, workable=True)
        self.mask = mask
        self.lazy = lazy

    def _args_repr(self):
        return ""

    def can_be_equivalent(self):
        return False

    def is_two_way(self, comb_class):
        return False

    def is_reversible(self, comb_class):
        return False

    def shifts(self, comb_class, children=None):
        if children is None:
            children = self.decomposition_function(comb_class)
        return tuple(0 for _ in children)

    def decomposition_function(self, c):
        if c.just_prefix or c.is_empty() or c.marks > 1 or c.start_set is not None or self.masked(c):
            return None
        return tuple(c.replace(prefix=tuple(c.prefix) + (a,)) for a in c.alphabet)

    def constructor(self, comb_class, children=None):
        if children is None:
            children = self.decomposition_function(comb_class)
            if children is None:
                raise StrategyDoesNotApply("Strategy does not apply")
        return PlusAtom(len(comb_class.prefix), comb_class.get_parameters(comb_class.prefix), len(children))

    def reverse_constructor(self, idx, comb_class, children=None):
        raise NotImplementedError

    def extra_parameters(self, comb_class, children=None):
        if children is None:
            children = self.decomposition_function(comb_class)
            if children is None:
                raise StrategyDoesNotApply("Strategy does not apply")
        return _ident(comb_class, children)

    def backward_map(self, comb_class, objs, children=None):
        if all(o is None for o in objs):
            yield Wd(comb_class.prefix)
        else:
            yield next(o for o in objs if o is not None)

    def forward_map(self, comb_class, obj, children=None):
        if children is None:
            children = self.decomposition_function(comb_class)
        res = [None] * len(children)
        if tuple(obj) != tuple(comb_class.prefix):
            for i, ch in enumerate(children):
                if tuple(obj[: len(ch.prefix)]) == tuple(ch.prefix):
                    res[i] = obj
                    break
        return tuple(res)

    def to_jsonable(self):
        return self._base_json()

    @classmethod
    def from_dict(cls, d):
        return cls(d.get("mask"), d.get("lazy", False))


class _Unary(MaskMixin, DisjointUnionStrategy):
    """Equivalence strategies: one child with exactly the same words."""

    def __init__(self, mask=None, lazy=False, inferrable=True, possibly_empty=False, two_way=True, ignore_parent=True, reversible=True, empty_first=False):
        super().__init__(ignore_parent=ignore_parent, inferrable=inferrable, possibly_empty=possibly_empty or empty_first, workable=True)
        self.mask = mask
        self.lazy = lazy
        self.two_way = two_way
        # a strategy may decline to be reversed (conservative, always legal) and still be two-way
        self.reversible = reversible
        # empty_first: the rule is written as a union (E, child) with an obviously empty first child E that
        # carries no statistics (its parameter map is {}): still an equivalence, but the non-empty child is
        # not the first one and the two children have different parameter maps
        self.empty_first = empty_first

    def _args_repr(self):
        return (
            ("" if self.two_way else "one_way")
            + ("" if self.ignore_parent else "+keep_parent")
            + ("" if self.reversible else "+irreversible")
            + ("+empty_first" if self.empty_first else "")
        )

    def _empty_child(self, c):
        if not self.empty_first or not c.patterns:
            return None
        p = c.patterns[0]
        if not all(l in c.alphabet for l in p):
            return None
        return c.replace(prefix=p, just_prefix=True, tracked=(), start_set=None, marks=1)

    def is_two_way(self, comb_class):
        # declaring a rule one-way is always allowed (conservative)
        return self.two_way

    def is_reversible(self, comb_class):
        return self.reversible

    def child(self, c):
        raise NotImplementedError

    def param_map(self, c, child):
        raise NotImplementedError

    def decomposition_function(self, c):
        if c.is_empty() or self.masked(c):
            return None
        ch = self.child(c)
        if ch is None or ch == c:
            return None
        e = self._empty_child(c)
        if e is not None:
            return (e, ch)
        return (ch,)

    def extra_parameters(self, comb_class, children=None):
        if children is None:
            children = self.decomposition_function(comb_class)
            if children is None:
                raise StrategyDoesNotApply("Strategy does not apply")
        if len(children) == 2:
            return ({}, self.param_map(comb_class, children[1]))
        return (self.param_map(comb_class, children[0]),)

    def forward_map(self, comb_class, obj, children=None):
        if children is None:
            children = self.decomposition_function(comb_class)
        if len(children) == 2:
            return (None, obj)
        return (obj,)

    def to_jsonable(self):
        d = self._base_json()
        d["two_way"] = self.two_way
        d["reversible"] = self.reversible
        d["empty_first"] = self.empty_first
        return d

    @classmethod
    def from_dict(cls, d):
        return cls(
            d.get("mask"),
            d.get("lazy", False),
            two_way=d.get("two_way", True),
            ignore_parent=d.get("ignore_parent", True),
            reversible=d.get("reversible", True),
            empty_first=d.get("empty_first", False),
        )


class ReducePatterns(_Unary):
    """Drop every pattern that contains another pattern as a factor."""

    def child(self, c):
        keep = tuple(p for p in c.patterns if not any(q != p and _contains(p, q) for q in c.patterns))
        return c.replace(patterns=keep)

    def param_map(self, c, child):
        return {k: k for k in c.extra_parameters}


class DropDeadStatistic(_Unary):
    """A tracked letter outside the alphabet never occurs: drop its statistic."""

    def child(self, c):
        dead = [i for i, l in enumerate(c.tracked) if l not in c.alphabet]
        if not dead:
            return None
        i = dead[0]
        return c.replace(tracked=c.tracked[:i] + c.tracked[i + 1 :])

    def param_map(self, c, child):
        dead = [i for i, l in enumerate(c.tracked) if l not in c.alphabet][0]
        m = {}
        j = 0
        for i in range(len(c.tracked)):
            if i == dead:
                continue
            m[f"k{i}"] = f"k{j}"
            j += 1
        return m


class MergeDuplicateStatistics(_Unary):
    """tracked = (a, a) -> (a,): two parent statistics mapped onto one child statistic."""

    def child(self, c):
        if len(c.tracked) == 2 and c.tracked[0] == c.tracked[1]:
            return c.replace(tracked=c.tracked[:1])
        return None

    def param_map(self, c, child):
        return {"k0": "k0", "k1": "k0"}


class TrackLetter(_Unary):
    """tracked = () -> (a,): the child refines the parent; its statistic is summed out."""

    def __init__(self, letter=0, mask=None, lazy=False, two_way=True, ignore_parent=True):
        super().__init__(mask=mask, lazy=lazy, two_way=two_way, ignore_parent=ignore_parent)
        self.letter = letter

    def _args_repr(self):
        return f"letter={self.letter}" + ("" if self.two_way else ",one_way") + ("" if self.ignore_parent else "+keep_parent")

    def is_two_way(self, comb_class):
        # the child refines the parent: the parent's enumeration does not determine the child's
        return False

    def is_reversible(self, comb_class):
        return False

    def child(self, c):
        if c.tracked or c.just_prefix:
            return None
        return c.replace(tracked=(self.letter,))

    def param_map(self, c, child):
        return {}

    def to_jsonable(self):
        d = self._base_json()
        d["letter"] = self.letter
        return d

    @classmethod
    def from_dict(cls, d):
        return cls(d["letter"], d.get("mask"), d.get("lazy", False), d.get("two_way", True), d.get("ignore_parent", True))


class Rename(_Unary):
    """The class with its letters renamed by a permutation (an ordinary unary strategy, not a
    symmetry of the pack).  Declared one-way, a 3-cycle and its square give overlapping
    directed cycles of one-way rules: A -> A' -> A'' -> A and A -> A'' -> A' -> A."""

    def __init__(self, perm=(1, 0), mask=None, lazy=False, two_way=False, ignore_parent=False, empty_first=False):
        super().__init__(mask=mask, lazy=lazy, two_way=two_way, ignore_parent=ignore_parent, empty_first=empty_first)
        self.perm = tuple(perm)

    def _args_repr(self):
        return (
            f"perm={self.perm}"
            + ("" if self.two_way else ",one_way")
            + ("" if self.ignore_parent else "+keep_parent")
            + ("+empty_first" if self.empty_first else "")
        )

    def _m(self, l):
        return self.perm[l] if l < len(self.perm) else l

    def child(self, c):
        return c.replace(
            prefix=tuple(self._m(l) for l in c.prefix),
            patterns=tuple(tuple(self._m(l) for l in p) for p in c.patterns),
            alphabet=tuple(self._m(l) for l in c.alphabet),
            tracked=tuple(self._m(l) for l in c.tracked),
            start_set=None if c.start_set is None else tuple(self._m(l) for l in c.start_set),
        )

    def param_map(self, c, child):
        return {k: k for k in c.extra_parameters}

    def forward_map(self, comb_class, obj, children=None):
        if children is None:
            children = self.decomposition_function(comb_class)
        img = Wd(self._m(l) for l in obj)
        return (None, img) if len(children) == 2 else (img,)

    def backward_map(self, comb_class, objs, children=None):
        inv = {self._m(l): l for l in range(max(len(self.perm), 4))}
        yield Wd(inv[l] for l in objs[-1])

    def to_jsonable(self):
        d = self._base_json()
        d.update(perm=list(self.perm), two_way=self.two_way, empty_first=self.empty_first)
        return d

    @classmethod
    def from_dict(cls, d):
        return cls(d["perm"], d.get("mask"), d.get("lazy", False), d.get("two_way", False), d.get("ignore_parent", False), d.get("empty_first", False))


class LetterPermutation(MaskMixin, SymmetryStrategy):
    """Rename the letters by a permutation of the alphabet."""

    def __init__(self, perm=(1, 0), mask=None, lazy=False):
        super().__init__()
        self.perm = tuple(perm)
        self.mask = mask
        self.lazy = lazy

    def _args_repr(self):
        return f"perm={self.perm}"

    def _m(self, l):
        return self.perm[l] if l < len(self.perm) else l

    def image(self, c):
        return c.replace(
            prefix=tuple(self._m(l) for l in c.prefix),
            patterns=tuple(tuple(self._m(l) for l in p) for p in c.patterns),
            alphabet=tuple(self._m(l) for l in c.alphabet),
            tracked=tuple(self._m(l) for l in c.tracked),
            start_set=None if c.start_set is None else tuple(self._m(l) for l in c.start_set),
        )

    def decomposition_function(self, c):
        if c.is_empty() or self.masked(c):
            return None
        img = self.image(c)
        if img == c:
            return None
        return (img,)

    def extra_parameters(self, comb_class, children=None):
        if children is None:
            children = self.decomposition_function(comb_class)
            if children is None:
                raise StrategyDoesNotApply("Strategy does not apply")
        return _ident(comb_class, children)

    def forward_map(self, comb_class, obj, children=None):
        return (Wd(self._m(l) for l in obj),)

    def backward_map(self, comb_class, objs, children=None):
        inv = {self._m(l): l for l in range(max(len(self.perm), 4))}
        yield Wd(inv[l] for l in objs[0])

    def to_jsonable(self):
        d = self._base_json()
        d["perm"] = list(self.perm)
        return d

    @classmethod
    def from_dict(cls, d):
        return cls(d["perm"], d.get("mask"), d.get("lazy", False))


# ---------------------------------------------------------------------------
# Verification
# ---------------------------------------------------------------------------


class WordAtom(VerificationStrategy):
    """Atoms, with statistics (the library's AtomStrategy refuses parameters)."""

    def __init__(self):
        super().__init__(ignore_parent=True)

    def verified(self, comb_class):
        return comb_class.just_prefix and comb_class.marks == 1

    def get_terms(self, comb_class, n):
        if n == len(comb_class.prefix) and not comb_class.is_empty():
            return Counter([comb_class.get_parameters(comb_class.prefix)])
        return Counter()

    def get_objects(self, comb_class, n):
        res = defaultdict(list)
        if n == len(comb_class.prefix) and not comb_class.is_empty():
            res[comb_class.get_parameters(comb_class.prefix)].append(Wd(comb_class.prefix))
        return res

    def random_sample_object_of_size(self, comb_class, n, **parameters):
        if n != len(comb_class.prefix):
            raise ValueError("Invalid size")
        return Wd(comb_class.prefix)

    def formal_step(self):
        return "word atom"

    def pack(self, comb_class):
        raise InvalidOperationError("No pack for atoms")

    def __repr__(self):
        return "WordAtom()"

    def __str__(self):
        return "WordAtom()"

    @classmethod
    def from_dict(cls, d):
        return cls()


class FiatVerified(VerificationStrategy):
    """A seeded set of classes declared verified - truthfully: terms, objects and
    sampler come from brute force.  Optionally supplies a pack (C19)."""

    def __init__(self, keys=(), salt=0, pct=0, pack_spec=None, ignore_parent=False, pack_pct=100):
        super().__init__(ignore_parent=ignore_parent)
        self.keys = frozenset(tuple(k) if not isinstance(k, frozenset) else k for k in keys)
        self.salt = salt
        self.pct = pct
        self.pack_spec = pack_spec
        # pack_pct < 100: the strategy offers its pack for a seeded subset of the classes it verifies only
        # (InvalidOperationError for the others, which are then counted directly and never expanded)
        self.pack_pct = pack_pct

    def offers_pack(self, comb_class):
        if self.pack_spec is None:
            return False
        return self.pack_pct >= 100 or _h(comb_class.key(), self.salt, "pack") % 100 < self.pack_pct

    def verified(self, comb_class):
        if comb_class.just_prefix or comb_class.is_empty() or comb_class.marks > 1:
            return False
        if comb_class.key() in self.keys:
            return True
        return self.pct > 0 and _h(comb_class.key(), self.salt, "fiat") % 100 < self.pct

    def get_terms(self, comb_class, n):
        return truth_terms(comb_class, n)

    def get_objects(self, comb_class, n):
        res = defaultdict(list)
        for w in truth_objects(comb_class, n):
            res[comb_class.get_parameters(w)].append(w)
        return res

    def random_sample_object_of_size(self, comb_class, n, **parameters):
        want = tuple(parameters[k] for k in comb_class.extra_parameters)
        objs = [w for w in truth_objects(comb_class, n) if comb_class.get_parameters(w) == want]
        return CURRENT_RNG.choice(objs)

    def pack(self, comb_class):
        if not self.offers_pack(comb_class):
            raise InvalidOperationError("no pack for this fiat verification")
        return make_pack(self.pack_spec)

    def formal_step(self):
        return "fiat verified"

    def __repr__(self):
        pk = "n" if not self.pack_spec else ("y" if self.pack_pct >= 100 else f"{self.pack_pct}%")
        return f"FiatVerified(n={len(self.keys)},salt={self.salt},pct={self.pct},pack={pk})"

    def __str__(self):
        return repr(self)

    def to_jsonable(self):
        d = super().to_jsonable()
        d.update(keys=sorted(self.keys), salt=self.salt, pct=self.pct, pack_spec=self.pack_spec, pack_pct=self.pack_pct)
        return d

    @classmethod
    def from_dict(cls, d):
        return cls(d["keys"], d["salt"], d["pct"], d["pack_spec"], d.get("ignore_parent", False), d.get("pack_pct", 100))


# ---------------------------------------------------------------------------
# Factories
# ---------------------------------------------------------------------------


class ExpandFactory(StrategyFactory):
    """Yields a mix of strategies and ready-made rules; optionally the expansion
    rule of another class (foreign parent) and duplicate emissions."""

    def __init__(self, ds=(1,), as_rules=False, foreign=None, dup=False, mask=None, foreign_first=False, with_remove_front=False):
        # with_remove_front: the factory also yields RemoveFront, before its expansions; it does not apply
        # to classes with an empty prefix, so an inapplicable strategy precedes the applicable ones
        self.with_remove_front = with_remove_front
        self.ds = tuple(ds)
        self.as_rules = as_rules
        self.foreign = foreign  # None | 'parent' | 'reduced'
        self.dup = dup
        self.mask = mask
        self.foreign_first = foreign_first

    def strategies(self):
        front = [RemoveFront()] if self.with_remove_front else []
        return front + [Expand(d, mask=self.mask) for d in self.ds]

    def __call__(self, comb_class):
        CALL_LOG.append((repr(self), comb_class.key()))
        if self.foreign_first:
            yield from self._foreign(comb_class)
        for st in self.strategies():
            if self.as_rules:
                if st.applies(comb_class):
                    yield st(comb_class)
                    if self.dup:
                        yield st(comb_class)
            else:
                yield st
                if self.dup:
                    yield st
        if not self.foreign_first:
            yield from self._foreign(comb_class)

    def _foreign(self, comb_class):
        if self.foreign and not comb_class.just_prefix:
            other = None
            if self.foreign == "parent" and len(comb_class.prefix) > 0:
                other = comb_class.replace(prefix=comb_class.prefix[:-1])
            elif self.foreign == "reduced":
                other = ReducePatterns().child(comb_class)
                if other == comb_class:
                    other = None
            if other is not None:
                st = Expand(1, mask=self.mask)
                if st.applies(other):
                    yield st(other)

    def __repr__(self):
        return f"ExpandFactory(ds={self.ds},as_rules={self.as_rules},foreign={self.foreign},dup={self.dup},mask={self.mask},ff={self.foreign_first},rf={self.with_remove_front})"

    def __str__(self):
        return repr(self)

    def to_jsonable(self):
        d = super().to_jsonable()
        d.update(ds=list(self.ds), as_rules=self.as_rules, foreign=self.foreign, dup=self.dup, mask=self.mask, foreign_first=self.foreign_first, with_remove_front=self.with_remove_front)
        return d

    @classmethod
    def from_dict(cls, d):
        return cls(d["ds"], d["as_rules"], d["foreign"], d["dup"], d["mask"], d.get("foreign_first", False), d.get("with_remove_front", False))


class OrbitFactory(StrategyFactory):
    """A symmetry given as a factory of ready-made rules: the symmetry rule of the class and the symmetry rule
    of its image (an orbit chain C -> s(C), s(C) -> s(s(C)); the second rule's parent is not the class the
    factory was applied to)."""

    def __init__(self, perm=(1, 0), mask=None, foreign_first=False):
        self.perm = tuple(perm)
        self.mask = mask
        self.foreign_first = foreign_first

    def strategies(self):
        return [LetterPermutation(self.perm, self.mask)]

    def __call__(self, comb_class):
        CALL_LOG.append((repr(self), comb_class.key()))
        st = LetterPermutation(self.perm, self.mask)
        own, chain = [], []
        if st.applies(comb_class):
            own = [st(comb_class)]
            img = st.image(comb_class)
            if st.applies(img):
                chain = [st(img)]
        yield from (chain + own if self.foreign_first else own + chain)

    def __repr__(self):
        return f"OrbitFactory(perm={self.perm},mask={self.mask},ff={self.foreign_first})"

    def __str__(self):
        return repr(self)

    def to_jsonable(self):
        d = super().to_jsonable()
        d.update(perm=list(self.perm), mask=self.mask, foreign_first=self.foreign_first)
        return d

    @classmethod
    def from_dict(cls, d):
        return cls(d["perm"], d.get("mask"), d.get("foreign_first", False))


class AtomTwinFactory(StrategyFactory):
    """Atom verification as a factory that yields ready-made verification rules: the rule of the class itself
    when it is an atom and, for a non-atom, the rule of ANOTHER class - the atom of its prefix (a verification
    rule whose parent is not the class the factory was applied to)."""

    def __init__(self, foreign=True, foreign_first=False):
        self.foreign = foreign
        self.foreign_first = foreign_first

    def strategies(self):
        return [WordAtom()]

    def __call__(self, comb_class):
        CALL_LOG.append((repr(self), comb_class.key()))
        if comb_class.marks > 1 or comb_class.is_empty():
            return
        st = WordAtom()
        own = [st(comb_class)] if st.verified(comb_class) else []
        twin = []
        if self.foreign and not comb_class.just_prefix:
            twin = [st(comb_class.replace(just_prefix=True, start_set=None))]
        yield from (twin + own if self.foreign_first else own + twin)

    def __repr__(self):
        return f"AtomTwinFactory(foreign={self.foreign},ff={self.foreign_first})"

    def __str__(self):
        return repr(self)

    def to_jsonable(self):
        d = super().to_jsonable()
        d.update(foreign=self.foreign, foreign_first=self.foreign_first)
        return d

    @classmethod
    def from_dict(cls, d):
        return cls(d.get("foreign", True), d.get("foreign_first", False))


# ---------------------------------------------------------------------------
# Specs (JSON) -> objects
# ---------------------------------------------------------------------------

_STRATS = {
    "Expand": lambda s: Expand(s.get("d", 1), _mask(s), s.get("lazy", False), s.get("drop", False), s.get("atom_last", False)),
    "ExpandFolded": lambda s: ExpandFolded(_mask(s), s.get("lazy", False)),
    "SplitZeros": lambda s: SplitZeros(_mask(s), s.get("lazy", False)),
    "ForgetMark": lambda s: ForgetMark(_mask(s), s.get("lazy", False)),
    "RemoveFront": lambda s: RemoveFront(_mask(s), s.get("lazy", False), s.get("split", False), s.get("merge", False), s.get("split3", False), s.get("pe", False)),
    "ReducePatterns": lambda s: ReducePatterns(_mask(s), s.get("lazy", False), two_way=s.get("two_way", True), ignore_parent=s.get("ignore_parent", True), reversible=s.get("reversible", True), empty_first=s.get("empty_first", False)),
    "DropDeadStatistic": lambda s: DropDeadStatistic(_mask(s), s.get("lazy", False), two_way=s.get("two_way", True), ignore_parent=s.get("ignore_parent", True), reversible=s.get("reversible", True), empty_first=s.get("empty_first", False)),
    "MergeDuplicateStatistics": lambda s: MergeDuplicateStatistics(_mask(s), s.get("lazy", False), two_way=s.get("two_way", True), ignore_parent=s.get("ignore_parent", True), reversible=s.get("reversible", True), empty_first=s.get("empty_first", False)),
    "TrackLetter": lambda s: TrackLetter(s.get("letter", 0), _mask(s), s.get("lazy", False), s.get("two_way", True), s.get("ignore_parent", True)),
    "Rename": lambda s: Rename(tuple(s["perm"]), _mask(s), s.get("lazy", False), s.get("two_way", False), s.get("ignore_parent", False), s.get("empty_first", False)),
    "LetterPermutation": lambda s: LetterPermutation(tuple(s["perm"]), _mask(s), s.get("lazy", False)),
    "WordAtom": lambda s: WordAtom(),
    "OrbitFactory": lambda s: OrbitFactory(tuple(s["perm"]), _mask(s), s.get("foreign_first", False)),
    "AtomTwinFactory": lambda s: AtomTwinFactory(s.get("foreign", True), s.get("foreign_first", False)),
    "AtomStrategy": lambda s: AtomStrategy(),
    "FiatVerified": lambda s: FiatVerified(
        [_tup(k) for k in s.get("keys", [])], s.get("salt", 0), s.get("pct", 0), s.get("pack_spec"), s.get("ignore_parent", False), s.get("pack_pct", 100)
    ),
    "ExpandFactory": lambda s: ExpandFactory(tuple(s.get("ds", (1,))), s.get("as_rules", False), s.get("foreign"), s.get("dup", False), _mask(s), s.get("foreign_first", False), s.get("with_remove_front", False)),
}


def _tup(x):
    if isinstance(x, (list, tuple)):
        return tuple(_tup(y) for y in x)
    return x


def _mask(s):
    m = s.get("mask")
    return list(m) if m is not None else None


def make_strategy(spec):
    return _STRATS[spec["t"]](spec)


def make_pack(spec):
    return StrategyPack(
        initial_strats=[make_strategy(s) for s in spec.get("initial", [])],
        inferral_strats=[make_strategy(s) for s in spec.get("inferral", [])],
        expansion_strats=[[make_strategy(s) for s in st] for st in spec.get("expansion", [])],
        ver_strats=[make_strategy(s) for s in spec.get("ver", [])],
        symmetries=[make_strategy(s) for s in spec.get("symmetries", [])],
        iterative=spec.get("iterative", False),
        name=spec.get("name", "W"),
    )


def make_class(spec):
    cls = WC if spec.get("compress") else W
    return cls(
        tuple(spec.get("prefix", ())),
        [tuple(p) for p in spec.get("patterns", [])],
        tuple(spec["alphabet"]),
        bool(spec.get("just_prefix", False)),
        tuple(spec.get("tracked", ())),
        spec.get("start_set"),
        spec.get("marks", 1),
    )


def pack_strategies(pack):
    """All strategies of a pack, factories expanded to the strategies they may yield."""
    res = []
    for st in pack:
        if isinstance(st, ExpandFactory):
            res.extend(st.strategies())
            res.append(Expand(1, mask=st.mask))
        elif isinstance(st, (AtomTwinFactory, OrbitFactory)):
            res.extend(st.strategies())
        else:
            res.append(st)
    return res


def true_shifts(strategy, c, children):
    """Shifts of a forward rule of this world, derived independently of the library:
    a union reads its children at the same size; a product reads child i at the size
    minus the minimum sizes of the other factors (minimum size = length of the prefix)."""
    if isinstance(strategy, VerificationStrategy):
        return ()
    if isinstance(strategy, CartesianProductStrategy):
        mins = [len(ch.prefix) for ch in children]
        return tuple(sum(mins) - m for m in mins)
    return tuple(0 for _ in children)


def true_reverse_shifts(forward, idx):
    """Counting child idx from the parent and the siblings: the parent is read at the
    size plus the forward shift of that child, each sibling relative to that."""
    p = -forward[idx]
    return (p,) + tuple(s + p for i, s in enumerate(forward) if i != idx)


# ---------------------------------------------------------------------------
# World self-validation: every rule a strategy produces is a genuine bijection.
# Independent of the library's constructors.  A failure is a harness error.
# ---------------------------------------------------------------------------

_SELFCHECKED = {}


class WorldBug(Exception):
    pass


def selfcheck_rule(strategy, c, nmax=5):
    k = (repr(strategy), c.key())
    if k in _SELFCHECKED:
        return
    if len(_SELFCHECKED) > 100000:
        _SELFCHECKED.clear()
    _SELFCHECKED[k] = True
    children = strategy.decomposition_function(c)
    if children is None:
        return
    if isinstance(strategy, VerificationStrategy):
        for n in range(nmax + 1):
            if strategy.get_terms(c, n) != truth_terms(c, n) and +strategy.get_terms(c, n) != +truth_terms(c, n):
                raise WorldBug(f"{strategy} terms wrong on {c} at n={n}")
        return
    if isinstance(strategy, ForgetMark):
        for n in range(nmax + 1):
            built = Counter()
            for x in truth_objects(children[0], n):
                for y in strategy.backward_map(c, (x,), children):
                    if strategy.forward_map(c, y, children) != (x,):
                        raise WorldBug("ForgetMark maps are not inverse")
                    built[tuple(y)] += 1
            if built != Counter(tuple(w) for w in truth_objects(c, n)):
                raise WorldBug(f"ForgetMark on {c} is wrong at n={n}")
        return
    params = strategy.extra_parameters(c, children)
    if strategy.is_reversible(c) or strategy.is_two_way(c):
        for ch, pm in zip(children, params):
            if set(ch.extra_parameters) - set(pm.values()):
                raise WorldBug(f"{strategy} claims to be reversible / two-way on {c} but child {ch} has a statistic no parent statistic maps to")
    if len(params) != len(children):
        raise WorldBug(f"{strategy} on {c}: {len(params)} parameter maps for {len(children)} children")
    if truth_empty(c) != c.is_empty():
        raise WorldBug(f"is_empty wrong for {c}")
    for ch in children:
        if truth_empty(ch) != ch.is_empty():
            raise WorldBug(f"is_empty wrong for {ch}")
        if not strategy.possibly_empty and truth_empty(ch):
            raise WorldBug(f"{strategy} on {c}: possibly_empty=False but child {ch} is empty")
    for n in range(nmax + 1):
        parent = Counter()
        for w in truth_objects(c, n):
            parent[(tuple(w), c.get_parameters(w))] += 1
        built = Counter()
        if isinstance(strategy, CartesianProductStrategy):
            def combos(i, left):
                if i == len(children) - 1:
                    for x in truth_objects(children[i], left):
                        yield (x,)
                    return
                for sz in range(left + 1):
                    for x in truth_objects(children[i], sz):
                        for tail in combos(i + 1, left - sz):
                            yield (x,) + tail

            for parts in combos(0, n):
                w = sum((tuple(x) for x in parts), ())
                # parent statistic = sum over children that map it
                vals = []
                for j, _name in enumerate(c.extra_parameters):
                    v = 0
                    for ch, obj, pm in zip(children, parts, params):
                        if f"k{j}" in pm:
                            v += ch.get_parameters(obj)[int(pm[f"k{j}"][1:])]
                    vals.append(v)
                built[(w, tuple(vals))] += 1
        else:
            for ch, pm in zip(children, params):
                for x in truth_objects(ch, n):
                    if isinstance(strategy, (LetterPermutation, Rename)):
                        objs = tuple(x if other is ch else None for other in children)
                        w = tuple(next(strategy.backward_map(c, objs, children)))
                        if strategy.forward_map(c, Wd(w), children) != objs:
                            raise WorldBug(f"{strategy}: forward/backward not inverse on {x}")
                    else:
                        w = tuple(x)
                    chp = ch.get_parameters(x)
                    vals = []
                    ok = True
                    for j in range(len(c.tracked)):
                        name = f"k{j}"
                        if name in pm:
                            vals.append(chp[int(pm[name][1:])])
                        else:
                            vals.append(0)
                    # several parent statistics on one child statistic must agree: automatic
                    if ok:
                        built[(w, tuple(vals))] += 1
        if isinstance(strategy, ExpandFolded) and n == len(c.prefix):
            built[(tuple(c.prefix), c.get_parameters(c.prefix))] += 1
        if built != parent:
            raise WorldBug(f"{strategy} on {c} is not a bijection at n={n}: parent {sorted(parent.items())[:6]} built {sorted(built.items())[:6]}")
    if c.minimum_size_of_object() != len(c.prefix):
        raise WorldBug("minimum size")
