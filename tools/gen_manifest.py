#!/venv/bin/python
"""Generate /verif/MANIFEST.json from the table below (keeps it valid and uniform)."""
import json, os
HERE = os.path.dirname(os.path.dirname(os.path.abspath(__file__)))
PY = "/venv/bin/python"
BASE = "cd /repo && /venv/bin/python -m pytest -ra -q -p no:cacheprovider --timeout=900 --continue-on-collection-errors"

CHECKS = {}
NA = {}

def chk(pid, technique, text, note, ref):
    CHECKS[pid] = dict(technique=technique, text=text, note=note, ref=ref)

exec(open(os.path.join(HERE, "tools", "manifest_table.py")).read())

m = {
 "version": 1,
 "setup_cmd": f"{PY} -c \"import sys; sys.path.insert(0,'/verif'); import dsim.seams as s; print('comb_spec_searcher from', s.REPO, 'missing seams:', s.seam_report())\"",
 "hooks": {
  "guard": "COMB_SPEC_SEARCHER_VERIF",
  "enable": "no guarded source change exists: every seam is a module attribute or constructor argument the library already has (DESIGN.md 2.4); checks import /repo's working tree directly",
  "baseline_off_cmd": BASE,
  "source_commits": [],
  "add_only": True,
 },
 "engines": [
  {"name": "dsim", "path": "/verif/dsim", "serves_properties": sorted(CHECKS),
   "kind_free_text": "hand-written deterministic simulator: SimClock / SimRandom facades at the library's module-level seams, seed -> run descriptor -> execute, delta-debugging shrinker, replay files"}
 ],
 "checks": [
  {
   "property_id": pid,
   "quick_cmd": f"{PY} /verif/check.py {pid} --tier quick",
   "thorough_cmd": f"{PY} /verif/check.py {pid} --tier thorough",
   "evidence_file": f"/verif/evidence/{pid}.json",
   "replay_cmd_template": f"{PY} /verif/check.py --replay {{path}}",
   "engine": "dsim",
   "level_claimed": {"category": "exploration", "text": c["text"], "design_ref": c["ref"]},
   "level_note": c["note"],
   "technique": c["technique"],
  } for pid, c in sorted(CHECKS.items())
 ],
 "not_applicable": [{"property_id": k, "reason": v} for k, v in sorted(NA.items())],
 "notes": NOTES,
}
json.dump(m, open(os.path.join(HERE, "MANIFEST.json"), "w"), indent=1)
print("wrote MANIFEST.json with", len(CHECKS), "checks and", len(NA), "not applicable")
