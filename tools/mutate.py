#!/venv/bin/python
"""
Sensitivity tool: apply a hand-written mutant to a scratch copy of the repository
(outside /repo and /verif), run a check against it with VERIF_REPO, report, clean up.

  tools/mutate.py list
  tools/mutate.py run <mutant-id> [--tests] [--tier quick] [--runs N]
  tools/mutate.py all [--tests]          # kill matrix -> sensitivity.json

A mutant is (id, property, file, old, new).  With --tests the repository's own
test-suite is run on the mutant first; a mutant the suite kills is 'unrealistic'.
"""
import json, os, shutil, subprocess, sys, tempfile

HERE = os.path.dirname(os.path.dirname(os.path.abspath(__file__)))
sys.path.insert(0, os.path.join(HERE, "tools"))
from mutants import MUTANTS  # noqa: E402

PY = "/venv/bin/python"


def apply(m, root):
    p = os.path.join(root, m["file"])
    s = open(p).read()
    if s.count(m["old"]) != 1:
        raise SystemExit(f"mutant {m['id']}: pattern occurs {s.count(m['old'])} times in {m['file']}")
    open(p, "w").write(s.replace(m["old"], m["new"]))


def run(m, tests=False, tier="quick", runs=None):
    root = tempfile.mkdtemp(prefix="css_mut_")
    try:
        for name in ("comb_spec_searcher", "tests", "example.py", "conftest.py", "test_readme.txt", "README.rst", "pyproject.toml", "setup.py", "tox.ini"):
            src = os.path.join("/repo", name)
            if os.path.isdir(src):
                shutil.copytree(src, os.path.join(root, name))
            elif os.path.exists(src):
                shutil.copy(src, root)
        apply(m, root)
        res = {"id": m["id"], "property": m["property"], "what": m.get("what", "")}
        if tests:
            env = dict(os.environ, PYTHONPATH=root)
            p = subprocess.run([PY, "-m", "pytest", "-q", "-x", "-p", "no:cacheprovider", "--timeout=900"], cwd=root, env=env, capture_output=True, text=True)
            res["tests_pass"] = p.returncode == 0
            res["tests_tail"] = p.stdout.strip().splitlines()[-1:] 
        out = {}
        for prop in m["property"].split(","):
            env = dict(os.environ, VERIF_REPO=root)
            cmd = [PY, os.path.join(HERE, "check.py"), prop, "--tier", tier]
            if runs:
                cmd += ["--runs", str(runs)]
            p = subprocess.run(["timeout", "-s", "KILL", "900"] + cmd, env=env, capture_output=True, text=True)
            viol = [l for l in p.stdout.splitlines() if l.startswith("VIOLATION")]
            orac = [l.strip() for l in p.stdout.splitlines() if l.strip().startswith("oracle=")]
            out[prop] = {"exit": p.returncode, "violations": len(viol), "oracles": orac[:4]}
            if p.returncode not in (0, 1):
                out[prop]["tail"] = p.stdout[-1500:] + p.stderr[-1500:]
        res["checks"] = out
        res["killed"] = any(v["exit"] == 1 for v in out.values())
        return res
    finally:
        shutil.rmtree(root, ignore_errors=True)
        # evidence/replays were written by a run against a mutant: restore from git
        subprocess.run(["git", "-C", HERE, "checkout", "--", "evidence"], capture_output=True)
        subprocess.run(["git", "-C", HERE, "clean", "-fdq", "replays"], capture_output=True)


def main():
    a = sys.argv[1:]
    if not a or a[0] == "list":
        for m in MUTANTS:
            print(m["id"], m["property"], m["file"], "-", m.get("what", ""))
        return
    tests = "--tests" in a
    runs = int(a[a.index("--runs") + 1]) if "--runs" in a else None
    if a[0] == "run":
        m = next(x for x in MUTANTS if x["id"] == a[1])
        print(json.dumps(run(m, tests=tests, runs=runs), indent=1))
    elif a[0] == "all":
        only = a[a.index("--only") + 1].split(",") if "--only" in a else None
        res = []
        for m in MUTANTS:
            if only and not any(p in only for p in m["property"].split(",")):
                continue
            r = run(m, tests=tests, runs=runs)
            print(r["id"], r["property"], "KILLED" if r["killed"] else "MISSED", r.get("tests_pass"), {k: v["oracles"][:1] for k, v in r["checks"].items()}, flush=True)
            res.append(r)
        if not only:
            json.dump(res, open(os.path.join(HERE, "sensitivity.json"), "w"), indent=1)


if __name__ == "__main__":
    main()
