"""Catalogue of hand-written, realistic mutants per claimed property (sensitivity.json is built from it)."""
MUTANTS = []


def M(id, prop, file, old, new, what=""):
    MUTANTS.append(dict(id=id, property=prop, file=file, old=old, new=new, what=what))


EQ = "comb_spec_searcher/equiv_db.py"
M("eq1", "C06", EQ, "        if verified:\n            self.set_verified(label)\n", "", "verified flag not carried to the surviving root on merge")
M("eq2", "C06", EQ, "                        for eqv_vertix in path[i:]:", "                        for eqv_vertix in path[i + 1 :]:", "cycle merge skips the first vertex of the cycle")
M("eq3", "C06", EQ, "            if end in visited:\n                continue\n            visited.add(end)\n            for new_end in one_way_vertices[end]:\n                for i, vertex in enumerate(path[:-1]):\n                    if self.equivalent(vertex, new_end):", "            if end in visited:\n                continue\n            visited.add(end)\n            for new_end in one_way_vertices[end]:\n                for i, vertex in enumerate(path[:-1]):\n                    if vertex == new_end:", "cycle detection compares vertices by identity instead of by current component")
M("eq4", "C06", EQ, "        self._add_edge(label, other_label)\n        self._add_edge(other_label, label)\n        self._set_equivalent(label, other_label)", "        self._add_edge(label, other_label)\n        self._set_equivalent(label, other_label)", "two-way edge recorded in one direction only (explanation paths)")
M("eq5", "C06", EQ, "                if start != end:\n                    res[start].add(end)", "                if start != end and end not in res:\n                    res[start].add(end)", "one-way adjacency drops edges into vertices that already have out-edges")

FO = "comb_spec_searcher/rule_db/forest.py"
M("tm1", "C03", FO, "        return all(s is None or s > 0 for s in shifts)", "        return all(s is None or s >= 0 for s in shifts)", "rule fires when a shift is zero")
M("tm2", "C03", FO, "        if max_gap > self._gap_size:\n            self._gap_size = max_gap\n            self._correct_gap()", "        if max_gap > self._gap_size:\n            self._gap_size = max_gap", "gap not corrected when its size grows")
M("tm3", "C03", FO, "        if current_value > self._current_gap[1]:", "        if current_value >= self._current_gap[1]:", "off by one: value at the top of the gap already frozen")
M("tm4", "C03", FO, "        if new_gap[1] > self._current_gap[1]:\n            self._processing_queue.extend(self._rule_holding_extra_terms)\n            self._rule_holding_extra_terms.clear()", "        if new_gap[1] > self._current_gap[1]:\n            self._rule_holding_extra_terms.clear()", "held-back rules dropped instead of re-queued when the gap moves right")
M("tm5", "C03", FO, "            elif i - last_non_zero >= length:", "            elif i - last_non_zero > length:", "gap search off by one")
M("tm6", "C03", FO, "            fvalue + sfz - parent_current_value if fvalue is not None else None", "            fvalue + sfz if fvalue is not None else None", "initial shifts ignore the parent's current value (order dependence)")

M("fx1", "C11", FO, "            if not self._is_productive(itertools.chain.from_iterable(not_minimizing)):\n                self.needed_rules.append(rk)", "            if True:\n                self.needed_rules.append(rk)", "second minimisation pass skipped: every maybe-useful rule is kept")
M("fx2", "C11", FO, "    MINIMIZE_ORDER = (\n        RuleBucket.REVERSE,\n        RuleBucket.NORMAL,", "    MINIMIZE_ORDER = (\n        RuleBucket.NORMAL,\n        RuleBucket.REVERSE,", "reverse rules minimised after normal ones (used although avoidable)")
M("fx3", "C11", FO, "            if forest_key.parent in stable_subset and stable_subset.issuperset(\n                forest_key.children\n            ):", "            if forest_key.parent in stable_subset:", "pumping sub-universe keeps rules with non-pumping children")
M("fx4", "C11", FO, "            for _ in range(i, len(minimizing)):\n                minimizing.pop()", "            for _ in range(i + 1, len(minimizing)):\n                minimizing.pop()", "the rule that made the root pump stays in the pool")
M("fx5", "C11", FO, "            if tb.is_pumping(self.root_label):\n                minimizing.clear()\n                break", "            if tb.is_pumping(self.root_label):\n                break", "bucket not cleared when it is not needed")

CQ = "comb_spec_searcher/class_queue.py"
M("q1", "C16", CQ, "        self._initial_expanded.discard(label)\n        self.next_level.pop(label, None)", "        self._initial_expanded.discard(label)", "stop does not remove the label from the next level")
M("q2", "C16", CQ, "                if wp.label not in self.ignore:\n                    return wp", "                return wp", "ignore set not consulted at hand-out time")
M("q3", "C16", CQ, "        if self.can_do_inferral(label):\n            yield WorkPacket(label, self.inferral_strategies, True)\n            self.set_not_inferrable(label)", "        if self.can_do_inferral(label):\n            yield WorkPacket(label, self.inferral_strategies, True)", "inferral flag not set when the inferral work is staged")
M("q4", "C16", CQ, "        elif label not in self.ignore:\n            self.next_level.update((label,))", "        else:\n            self.next_level.update((label,))", "stopped labels re-enter the next level")
M("q5", "C16", CQ, "        if idx == len(self.expansion_strats):\n            self.set_stop_yielding(label)\n            return", "        if idx == len(self.expansion_strats):\n            return", "labels not retired after their last expansion set (can be expanded again)")
M("q6", "C16", CQ, "        while not self.staging and self.working:", "        if not self.staging and self.working:", "only one working label staged per call; level may change with work pending")
M("q7", "C16", CQ, "                if curr_level == self.levels_completed:\n                    raise NoMoreClassesToExpandError from e\n                return", "                raise NoMoreClassesToExpandError from e", "do_level raises even when the level advanced")
M("q8", "C16", CQ, "            for strat in self.initial_strategies:\n                yield WorkPacket(label, (strat,), False)\n            self.set_not_initial(label)", "            for strat in self.initial_strategies:\n                yield WorkPacket(label, (strat,), False)", "initial flag not set when the initial work is staged")

CD = "comb_spec_searcher/class_db.py"
M("cd1", "C15", CD, "        if compressed_class not in self.class_to_info:\n            label = len(self.class_to_info)", "        if True:\n            label = len(self.class_to_info)", "add() relabels a class that is already stored")
M("cd2", "C15", CD, "        self.empty_list[self.get_label(key)] = empty", "        self.empty_list[self.get_label(key) - 1] = empty", "set_empty writes the neighbour's slot")
M("cd3", "C15", CD, "        empty = self.empty_list[label]\n        if empty is None:", "        empty = self.empty_list[label]\n        if not empty:", "cached False treated as unknown (harmless) / ... recomputed")
M("cd4", "C15", CD, "            info = self.label_to_info.get(key)\n            if info is None:\n                raise KeyError(\"Key not in ClassDB.\")", "            info = self.label_to_info.get(min(key, len(self.label_to_info) - 1))\n            if info is None:\n                raise KeyError(\"Key not in ClassDB.\")", "too-large labels clamped to the last class")
M("cd5", "C15", CD, "        if label < 0:\n            return None\n", "", "negative labels wrap around (the repaired defect)")
