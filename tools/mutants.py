"""Catalogue of hand-written, realistic mutants per claimed property (sensitivity.json is built from it)."""
MUTANTS = []


def M(id, prop, file, old, new, what=""):
    MUTANTS.append(dict(id=id, property=prop, file=file, old=old, new=new, what=what))


EQ = "comb_spec_searcher/equiv_db.py"
M("eq1", "C06", EQ, "        if verified:\n            self.set_verified(label)\n", "", "verified flag not carried to the surviving root on merge")
M("eq2", "C06", EQ, "                        for eqv_vertix in path[i:]:", "                        for eqv_vertix in path[i + 1 :]:", "cycle merge skips the first vertex of the cycle")
M("eq3", "C06", EQ, "            if end in visited:\n                continue\n            visited.add(end)\n            for new_end in one_way_vertices[end]:\n                for i, vertex in enumerate(path[:-1]):\n                    if self.equivalent(vertex, new_end):", "            if end in visited:\n                continue\n            visited.add(end)\n            for new_end in one_way_vertices[end]:\n                for i, vertex in enumerate(path[:-1]):\n                    if vertex == new_end:", "cycle detection compares vertices by identity instead of by current component")
M("eq4", "C06", EQ, "        self._add_edge(label, other_label)\n        self._add_edge(other_label, label)\n        self._set_equivalent(label, other_label)", "        self._add_edge(label, other_label)\n        self._set_equivalent(label, other_label)", "two-way edge recorded in one direction only (explanation paths)")
M("eq5", "C06", EQ, "                if start != end:\n                    res[start].add(end)", "                if start != end and end not in res:\n                    res[start].add(end)", "one-way adjacency drops edges into vertices that already have out-edges")

FO = "comb_spec_searcher/rule_db/forest.py"
M("tm1", "C03", FO, "        return all(s is None or s > 0 for s in shifts)", "        return all(s is None or s >= 0 for s in shifts)", "rule fires when a shift is zero")
M("tm2", "C03", FO, "        if max_gap > self._gap_size:\n            self._gap_size = max_gap\n            self._correct_gap()", "        if max_gap > self._gap_size:\n            self._gap_size = max_gap", "gap not corrected when its size grows")
M("tm3", "C03", FO, "        if current_value > self._current_gap[1]:", "        if current_value >= self._current_gap[1]:", "off by one: value at the top of the gap already frozen")
M("tm4", "C03", FO, "        if new_gap[1] > self._current_gap[1]:\n            self._processing_queue.extend(self._rule_holding_extra_terms)\n            self._rule_holding_extra_terms.clear()", "        if new_gap[1] > self._current_gap[1]:\n            self._rule_holding_extra_terms.clear()", "held-back rules dropped instead of re-queued when the gap moves right")
M("tm5", "C03", FO, "            elif i - last_non_zero >= length:", "            elif i - last_non_zero > length:", "gap search off by one")
M("tm6", "C03", FO, "            fvalue + sfz - parent_current_value if fvalue is not None else None", "            fvalue + sfz if fvalue is not None else None", "initial shifts ignore the parent's current value (order dependence)")

M("fx1", "C11", FO, "            if not self._is_productive(itertools.chain.from_iterable(not_minimizing)):\n                self.needed_rules.append(rk)", "            if True:\n                self.needed_rules.append(rk)", "second minimisation pass skipped: every maybe-useful rule is kept")
M("fx2", "C11", FO, "    MINIMIZE_ORDER = (\n        RuleBucket.REVERSE,\n        RuleBucket.NORMAL,", "    MINIMIZE_ORDER = (\n        RuleBucket.NORMAL,\n        RuleBucket.REVERSE,", "reverse rules minimised after normal ones (used although avoidable)")
M("fx3", "C11", FO, "            if forest_key.parent in stable_subset and stable_subset.issuperset(\n                forest_key.children\n            ):", "            if forest_key.parent in stable_subset:", "pumping sub-universe keeps rules with non-pumping children")
M("fx4", "C11", FO, "            for _ in range(i, len(minimizing)):\n                minimizing.pop()", "            for _ in range(i + 1, len(minimizing)):\n                minimizing.pop()", "the rule that made the root pump stays in the pool")
M("fx5", "C11", FO, "            if tb.is_pumping(self.root_label):\n                minimizing.clear()\n                break", "            if tb.is_pumping(self.root_label):\n                break", "bucket not cleared when it is not needed")

CQ = "comb_spec_searcher/class_queue.py"
M("q1", "C16", CQ, "        self._initial_expanded.discard(label)\n        self.next_level.pop(label, None)", "        self._initial_expanded.discard(label)", "stop does not remove the label from the next level")
M("q2", "C16", CQ, "                if wp.label not in self.ignore:\n                    return wp", "                return wp", "ignore set not consulted at hand-out time")
M("q3", "C16", CQ, "        if self.can_do_inferral(label):\n            yield WorkPacket(label, self.inferral_strategies, True)\n            self.set_not_inferrable(label)", "        if self.can_do_inferral(label):\n            yield WorkPacket(label, self.inferral_strategies, True)", "inferral flag not set when the inferral work is staged")
M("q4", "C16", CQ, "        elif label not in self.ignore:\n            self.next_level.update((label,))", "        else:\n            self.next_level.update((label,))", "stopped labels re-enter the next level")
M("q5", "C16", CQ, "        if idx == len(self.expansion_strats):\n            self.set_stop_yielding(label)\n            return", "        if idx == len(self.expansion_strats):\n            return", "labels not retired after their last expansion set (can be expanded again)")
M("q6", "C16", CQ, "        while not self.staging and self.working:", "        if not self.staging and self.working:", "only one working label staged per call; level may change with work pending")
M("q7", "C16", CQ, "                if curr_level == self.levels_completed:\n                    raise NoMoreClassesToExpandError from e\n                return", "                raise NoMoreClassesToExpandError from e", "do_level raises even when the level advanced")
M("q8", "C16", CQ, "            for strat in self.initial_strategies:\n                yield WorkPacket(label, (strat,), False)\n            self.set_not_initial(label)", "            for strat in self.initial_strategies:\n                yield WorkPacket(label, (strat,), False)", "initial flag not set when the initial work is staged")

CD = "comb_spec_searcher/class_db.py"
M("cd1", "C15", CD, "        if compressed_class not in self.class_to_info:\n            label = len(self.class_to_info)", "        if True:\n            label = len(self.class_to_info)", "add() relabels a class that is already stored")
M("cd2", "C15", CD, "        self.empty_list[self.get_label(key)] = empty", "        self.empty_list[self.get_label(key) - 1] = empty", "set_empty writes the neighbour's slot")
M("cd3", "C15", CD, "        empty = self.empty_list[label]\n        if empty is None:", "        empty = self.empty_list[label]\n        if not empty:", "cached False treated as unknown (harmless) / ... recomputed")
M("cd4", "C15", CD, "            info = self.label_to_info.get(key)\n            if info is None:\n                raise KeyError(\"Key not in ClassDB.\")", "            info = self.label_to_info.get(min(key, len(self.label_to_info) - 1))\n            if info is None:\n                raise KeyError(\"Key not in ClassDB.\")", "too-large labels clamped to the last class")
M("cd5", "C15", CD, "        if label < 0:\n            return None\n", "", "negative labels wrap around (the repaired defect)")

RL = "comb_spec_searcher/strategies/rule.py"
CS = "comb_spec_searcher/comb_spec_searcher.py"
BA = "comb_spec_searcher/rule_db/base.py"
SX = "comb_spec_searcher/specification_extrator.py"
SP = "comb_spec_searcher/specification.py"
DJ = "comb_spec_searcher/strategies/constructor/disjoint.py"
CA = "comb_spec_searcher/strategies/constructor/cartesian.py"
M("s1", "C01,C02", RL, "                    rules_parameters = {b: a for a, b in rules_parameters.items()}\n", "", "equivalence path: parameter map of a complement link not inverted")
M("s2", "C01,C02,C11", RL, "        pshift = -original_shifts[self.idx]", "        pshift = original_shifts[self.idx]", "reverse rule shifts: sign of the flipped child's shift")
M("s3", "C04,C01", CS, "            if rule.comb_class == comb_class:\n                start_label = label\n            else:\n                start_label = self.classdb.get_label(rule.comb_class)", "            start_label = label", "foreign-parent rules recorded under the expanded class")
M("s4", "C04,C01", BA, "            if rule.possibly_empty and self.classdb.is_empty(comb_class, child_label):", "            if self.classdb.is_empty(comb_class, child_label) and len(ends) > 2:", "empty children only dropped from rules with more than two children")
M("s5", "C01,C02", SX, "            rule = rule if len(rule.children) == 1 else rule.to_equivalence_rule()\n            return rule.to_reverse_rule(0)", "            rule = rule if len(rule.children) == 1 else rule.to_equivalence_rule()\n            return rule", "reverse direction of a two-way rule returned unreversed")
M("s6", "C01", DJ, "                mapped_param = self._parent_param_map(param_map(param))\n                parent_terms_mapped[mapped_param] -= value", "                mapped_param = param_map(param)\n                parent_terms_mapped[mapped_param] -= value", "complement: sibling terms not mapped into the flipped child's coordinates")
M("s7", "C01", CA, "        self._parent_shift = sum(self._min_sizes) - self._min_sizes[self.idx]", "        self._parent_shift = sum(self._min_sizes)", "quotient: parent shift includes the flipped child's minimum size")
M("s8", "C04", CS, "                sym_label = end_labels[0]\n                self.classdb.set_empty(sym_label, empty)\n                self.ruledb.add(start_label, (sym_label,), rule)", "                sym_label = end_labels[0]\n                self.classdb.set_empty(sym_label, empty)\n                self.ruledb.add(sym_label, (start_label,), rule)", "symmetry rule recorded in the wrong direction")
M("s9", "C01,C02", SP, "            if path_rules and path_rules[-1].children[0] in not_hidden_classes:", "            if path_rules and len(path_rules) >= 1:", "equivalence paths cut after every link (hidden classes lose their rule)")
M("s10", "C01,C02", BA, "            rules_dict[self.equivdb[start]].add(\n                tuple(sorted(self.equivdb[e] for e in ends))\n            )", "            rules_dict[self.equivdb[start]].add(tuple(sorted(set(self.equivdb[e] for e in ends))))", "repeated equivalent children collapsed in rules up to equivalence")
M("s11", "C01", DJ, "                if new_params[p] is None:\n                    new_params[p] = value\n                else:\n                    assert new_params[p] == value", "                new_params[p] = value if new_params[p] is None else new_params[p] + value", "union parameter map adds values when two child statistics feed one parent statistic")
M("s12", "C01,C04", "comb_spec_searcher/rule_db/forest.py", "            if label not in self._already_empty and self.classdb.is_empty(\n                comb_class, label\n            ):", "            if label not in self._already_empty and label > 3 and self.classdb.is_empty(\n                comb_class, label\n            ):", "forest: no empty rule for empty classes with small labels")

TS_ = "comb_spec_searcher/tree_searcher.py"
M("p1", "C05", BA, "    def add(self, start: int, ends: Tuple[int, ...], rule: AbstractRule) -> None:\n        self._pruned_dict = None\n", "    def add(self, start: int, ends: Tuple[int, ...], rule: AbstractRule) -> None:\n", "cached pruned dictionary not invalidated on add")
M("p2", "C05", TS_, "                    if maximum is None or actual_length < maximum:", "                    if maximum is None or actual_length <= maximum:", "bounded dfs accepts forests one node too large")
M("p3", "C05", BA, "        self.equivdb.connect_cycles()\n        rules_dict: Dict[int, Set[Tuple[int, ...]]] = defaultdict(set)", "        rules_dict: Dict[int, Set[Tuple[int, ...]]] = defaultdict(set)", "cycles of one-way rules not connected before pruning")
M("p4", "C05", BA, "                rules_dict = iterative_prune(\n                    rules_dict, root=self.equivdb[self.root_label]\n                )", "                rules_dict = iterative_prune(rules_dict, root=self.root_label)", "F4 reverted: iterative root label instead of representative")
M("p5", "C05", BA, "        pruned_dict = self.pruned_dict\n        return self.equivdb[self.root_label] in pruned_dict", "        return self.equivdb[self.root_label] in self.pruned_dict", "F5 reverted: representative evaluated before cycles are connected")
M("p6", "C05", TS_, "            new_max = maximum - len(root_labels) + 1 if maximum is not None else None", "            new_max = maximum - len(root_labels) if maximum is not None else None", "bounded dfs reserves one node too many for the siblings")
M("p7", "C05", TS_, "        if not (v.label in seen or rule == ()):", "        if not rule == ():", "random proof tree re-expands labels already seen (may pick a second rule)")
M("p8", "C05", BA, "            if len(ends) == 1 and self.are_equivalent(start, ends[0]):\n                continue\n", "", "rules inside an equivalence class kept as self-rules")
M("p9", "C05", BA, "                maximum = min(middle, len(node))", "                maximum = middle", "smallest: bound not tightened to the tree found (equivalent)")
M("p10", "C05", TS_, "                if all(x in verified_labels for x in rule):\n                    changed = True\n                    verified_labels.add(k)\n                    new_rules_dict[k].add(rule)\n                    rdict[k].remove(rule)\n            if not rule_set:\n                del rdict[k]\n        if not changed:\n            break\n    return new_rules_dict", "                if all(x in verified_labels for x in rule):\n                    changed = True\n                    verified_labels.add(k)\n                    new_rules_dict[k].add(rule)\n                    rdict[k].remove(rule)\n                    break\n            if not rule_set:\n                del rdict[k]\n        if not changed:\n            break\n    return new_rules_dict", "iterative prune: inner break (harmless reordering?)")
