#!/usr/bin/env python3-vt
"""Validate MANIFEST.json and evidence files against the schemas (uses the tooling venv's jsonschema)."""
import json, glob, sys, jsonschema
ok = True
m = json.load(open('/verif/MANIFEST.json'))
jsonschema.validate(m, json.load(open('/root/.vp/MANIFEST.schema.json')))
es = json.load(open('/root/.vp/EVIDENCE.schema.json'))
claimed = {c['property_id'] for c in m['checks']}
na = {c['property_id'] for c in m.get('not_applicable', [])}
props = [json.loads(l)['id'] for l in open('/verif/properties.jsonl')]
print('claimed', sorted(claimed)); print('n/a', sorted(na)); print('unassigned', sorted(set(props) - claimed - na))
for f in sorted(glob.glob('/verif/evidence/*.json')):
    try:
        jsonschema.validate(json.load(open(f)), es); print('ok', f)
    except Exception as e:
        ok = False; print('INVALID', f, str(e)[:300])
sys.exit(0 if ok else 1)
