# Table consumed by gen_manifest.py.  One chk(...) per claimed property.
NOTES = ("Technique family: deterministic simulation with fault injection only. "
         "Properties not yet claimed and not listed under not_applicable are still under construction; "
         "see DESIGN.md section 0 for the plan.")

chk("C06",
    "deterministic simulation: seeded operation histories (edges, marks, cycle detection, pickle restart) on the real EquivalenceDB vs a reachability reference model",
    "Seeded exploration of histories; every query is compared with a directed-graph reference (iff after connect_cycles, soundness otherwise). A clean batch is evidence over the sampled histories, not a proof.",
    "Trusted: the 40-line reachability model in dsim/ref/graph.py; label sets <= 14, histories <= 120 ops.",
    "6.6")

NA.update({
 "C07": "pure function of (specification, n, parameters): no clock, random source, I/O, ordering or restart point is involved, so there is no schedule or fault for a simulator to vary (DESIGN.md section 7)",
 "C09": "pure function of (rule form, n) given the children's term tables; nothing schedule-, fault- or history-dependent (DESIGN.md section 7)",
 "C10": "which child sizes a rule reads is a deterministic function of (rule form, n); observing it is tracing a pure function, not exploring interleavings (DESIGN.md section 7)",
 "C12": "bijection construction and maps are pure functions of two immutable specifications; no clock, randomness or ordering is read (DESIGN.md section 7)",
 "C18": "a JSON round trip is a pure function of a value; no crash timing or partial write is part of the statement (DESIGN.md section 7)",
 "C20": "equations and generating functions are pure symbolic functions of a specification (DESIGN.md section 7)",
})
