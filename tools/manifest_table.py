# Table consumed by gen_manifest.py.  One chk(...) per claimed property.
NOTES = ("Technique family: deterministic simulation with fault injection only; six properties are pure functions of their input and are listed as not applicable (DESIGN.md section 7). "
         "Genuine defects found by the checks are recorded in known_findings.json (fixed: F1-F14 as fix: commits in /repo; known: K2, K3).")

chk("C06",
    "deterministic simulation: seeded operation histories (edges, marks, cycle detection, pickle restart) on the real EquivalenceDB vs a reachability reference model",
    "Seeded exploration of histories; every query is compared with a directed-graph reference (iff after connect_cycles, soundness otherwise). A clean batch is evidence over the sampled histories, not a proof.",
    "Trusted: the 40-line reachability model in dsim/ref/graph.py; label sets <= 14, histories <= 120 ops.",
    "6.6")

chk("C03",
    "deterministic simulation: seeded delivery schedules (order, duplication, bursts, interleaved queries) of rule keys into the real TableMethod / RuleDBForest vs a capped Kleene least-fixed-point reference",
    "Seeded exploration of insertion histories; after every insertion the reported function and pumping set are compared with the reference LFP, values must not decrease, and the same multiset in two other orders must give the same answer.",
    "Trusted: dsim/ref/lfp.py (cap K=(N+2)G+2, cross-checked against 2K in every run). Universes <= 14 labels, <= 40 rules, shifts within [-6,6].",
    "6.3")

chk("C11",
    "deterministic simulation: seeded delivery schedules of pumping integer universes (and universes recorded by simulated forest-DB searches) into the real ForestRuleExtractor vs reference LFP checks",
    "Seeded exploration; the extracted rule set is checked to be a sub-multiset of what was delivered, one rule per class, closed, productive, 1-minimal and free of avoidable reverse rules.",
    "Trusted: dsim/ref/lfp.py. Integer universes <= 14 labels; search layer bounded by the words world; there every key that enters the table is also compared with the key derived from the world (count and shifts).",
    "6.11")

chk("C15",
    "deterministic simulation: seeded operation histories with pickle-restart faults on the real ClassDB vs a list+dict reference model",
    "Seeded exploration of interleavings of label/class lookups, membership, emptiness, add, iteration and restart, with and without compression, colliding hashes and equal-but-not-identical copies.",
    "Trusted: the list+dict model inside dsim/props/c15.py; pool of 20 classes; truthful set_empty only.",
    "6.15")

chk("C16",
    "deterministic simulation: seeded operation histories (add/stop/verified/not-inferrable/next/level iteration/drain/pickle restart) on the real DefaultQueue checked by trace predicates P1-P5 and a bounded-progress liveness bound; the same monitor runs on the queue histories of simulated searches",
    "Seeded exploration of histories over packs of varied shape; predicates are stated on the recorded hand-out history only.",
    "Trusted: dsim/ref/queue.py. <= 10 labels, <= 200 ops; strategies are inert objects.",
    "6.16")

SEARCH_NOTE = ("Trusted: the words world (dsim/worlds/words.py; every rule it produces is re-checked to be a bijection by brute force), "
               "brute-force enumeration for n <= 6, the reference LFP. Universes capped at 300 work packets; alphabets <= 3 letters.")

chk("C01",
    "deterministic simulation: whole searches run under a simulated clock (slice boundaries, time-limit interrupts, jitter, stalls, backward steps), a controlled random source, pickle restarts and a seeded client call sequence; every returned specification is counted against brute force",
    "Seeded exploration over (world, pack, rule DB, schedule, faults). Evidence over the sampled schedules, not a proof.",
    SEARCH_NOTE, "6.1")

chk("C02",
    "deterministic simulation: same simulated searches as C01; every returned specification and raw rule list is checked by an independent structural validator and a reference least-fixed-point productivity computation",
    "Seeded exploration over (world, pack, rule DB, schedule, faults); validator shares no code with the library.",
    SEARCH_NOTE, "6.2")

chk("C04",
    "deterministic simulation: simulated searches with a recording rule DB; invariants evaluated at every rule-insertion event of the run (labels, children, genuineness by fresh re-application, stored key / empty rules), with buggified strategies (lazy does-not-apply, factories, foreign parents, duplicates, symmetries, inferral chains)",
    "Seeded exploration; invariants are checked at every add(start, ends, rule) along the whole run, for all three rule DBs.",
    SEARCH_NOTE, "6.4")

chk("C05",
    "deterministic simulation: seeded insertion/query histories into the real default and forget rule DBs (queries between arbitrary insertions) and seeded rule dictionaries into every tree finder under controlled clock and random source, vs greatest-fixed-point / bottom-up references collapsed by SCC, a tree validator and brute-force minimum tree size",
    "Seeded exploration of histories, random-source policies and minimisation-loop lengths.",
    "Trusted: dsim/ref/trees.py, dsim/ref/graph.py. Machine layers <= 10 labels; layer 'search' checks has_specification and the verified marks of real simulated searches (default / forget DB) against the same references on the recorded rules.",
    "6.5")

chk("C14",
    "deterministic simulation: LOCKSTEP - the insertion stream of a simulated search (either flavour steering, with restarts and schedule faults) is mirrored event by event into a fresh default and a fresh forget rule DB; the two are compared after every single insertion (refinement in both directions)",
    "Seeded exploration; each DB is the other's reference after every insertion: verified labels, stored rules, contains() on stored and non-stored keys, has_specification at seeded query points, and re-application of the strategies handed back.",
    SEARCH_NOTE, "6.14")

chk("C17",
    "deterministic simulation with crash-point enumeration: the simulated clock makes the time limit strike after exactly k work packets; at that point the searcher is pickled, restored, compared, and original and restored are run forward as twins under cloned clock and random streams; 'sweep' runs do this for every k until the search ends; 'resume' runs split the remaining work over further interrupted calls",
    "Seeded exploration plus, in sweep runs, exhaustive enumeration of the crash points of one search (reported separately in the evidence).",
    SEARCH_NOTE + " Crash points are packet boundaries (the only place the library checks its time limit and the only state a user can pickle).", "6.17")

chk("C19",
    "deterministic simulation: expand_verified / expand_comb_class (inner time-sliced searches over a forest DB) run under a jitter clock with stalls, backward steps and time-limit interrupts, on originals produced by simulated searches under every rule DB; result and original are checked by the C01/C02 validators, identity and immutability checks",
    "Seeded exploration over (world, outer/inner packs, rule DB, inner slicing, interrupts).",
    SEARCH_NOTE + " SpecificationNotFound from an expansion is accepted only when the inner pack is masked (the world cannot then confirm that a specification exists), so a broken retry-with-reverse path is only seen through wrong or invalid results, not through a missing one.", "6.19")

chk("C13",
    "deterministic simulation: the two searchers are driven through seeded pre-expansion prefixes with faults (levels, time-limit interrupts at chosen packets via the simulated clock, pickle restarts) before being handed to either finder variant; totality, C01/C02 validators on both members and Isomorphism.check in both directions",
    "Seeded exploration; the input dimension (pairs of classes and packs) dominates, the schedule dimension is the hand-over state of the two stateful searchers.",
    SEARCH_NOTE + " Atom-only verification and the default rule DB, as the finder requires. Known findings K2 and K3 are reported as KNOWN-FINDING.", "6.13")

chk("C08",
    "deterministic simulation with the random source under the simulator's control: every outcome of every sampler decision is enumerated (scripted SimRandom at the library's randint / random seams) - per rule with token sub-samplers, and as a depth-first exploration of the whole decision tree of the root sampler with exact rational probabilities - on specifications produced by simulated searches",
    "Exhaustive inner enumeration of the random source per specification (no statistical test); the outer choice of specifications is seeded exploration.",
    SEARCH_NOTE + " Global decision trees are capped at 3000 paths per (n, parameters); rules without a sampler (complement, quotient) are documented NotImplementedError and skipped.", "6.8")

NA.update({
 "C07": "pure function of (specification, n, parameters): no clock, random source, I/O, ordering or restart point is involved, so there is no schedule or fault for a simulator to vary (DESIGN.md section 7)",
 "C09": "pure function of (rule form, n) given the children's term tables; nothing schedule-, fault- or history-dependent (DESIGN.md section 7)",
 "C10": "which child sizes a rule reads is a deterministic function of (rule form, n); observing it is tracing a pure function, not exploring interleavings (DESIGN.md section 7)",
 "C12": "bijection construction and maps are pure functions of two immutable specifications; no clock, randomness or ordering is read (DESIGN.md section 7)",
 "C18": "a JSON round trip is a pure function of a value; no crash timing or partial write is part of the statement (DESIGN.md section 7)",
 "C20": "equations and generating functions are pure symbolic functions of a specification (DESIGN.md section 7)",
})
