#!/venv/bin/python
"""
Confirm and evaluate a seeded change produced by an independent sub-agent.

  tools/seeded.py confirm <dir-with-patch.diff+demo.py> <PROP> <name>
      - patch applies to a clean copy of /repo HEAD
      - the repository's own test-suite passes with it
      - demo.py fails with the change and passes without it
      - copies patch.diff / demo.py / notes.md to /verif/seeded/<name>/ and writes meta.json
  tools/seeded.py check <name> [--tier quick|thorough] [--budget S] [--props C01,C02]
      - runs the registered check(s) against a scratch copy with the patch applied
        (VERIF_REPO=<scratch>), records the outcome in meta.json

Scratch copies live under /tmp and are removed afterwards.  /repo itself is never modified.
"""
import json
import os
import shutil
import subprocess
import sys
import tempfile

HERE = os.path.dirname(os.path.dirname(os.path.abspath(__file__)))
PY = "/venv/bin/python"


def scratch():
    root = tempfile.mkdtemp(prefix="css_seed_")
    subprocess.run(["git", "-C", "/repo", "archive", "HEAD", "--format=tar", "-o", os.path.join(root, "r.tar")], check=True)
    subprocess.run(["tar", "-xf", "r.tar"], cwd=root, check=True)
    os.remove(os.path.join(root, "r.tar"))
    return root


def apply(root, patch):
    p = subprocess.run(["patch", "-p1", "-s", "-i", patch], cwd=root, capture_output=True, text=True)
    return p.returncode == 0, (p.stdout + p.stderr)[-500:]


def run_demo(root, demo):
    env = dict(os.environ, PYTHONPATH=root)
    p = subprocess.run(["timeout", "600", PY, demo], cwd=root, env=env, capture_output=True, text=True)
    return p.returncode, (p.stdout + p.stderr)[-800:]


def confirm(src, prop, name):
    """src = <worktree>/_mutants/m<i>; the agent's own scratch worktree is used for the confirmation
    (several demos insist on importing the library from exactly that path)."""
    wt = os.path.dirname(os.path.dirname(os.path.abspath(src)))
    dst = os.path.join(HERE, "seeded", name)
    os.makedirs(dst, exist_ok=True)
    for f in ("patch.diff", "demo.py", "notes.md"):
        if os.path.exists(os.path.join(src, f)):
            shutil.copy(os.path.join(src, f), dst)
    meta = {"name": name, "property": prop, "source": "independent sub-agent (given only the property text and a scratch worktree)"}
    git = ["git", "-C", wt]
    subprocess.run(git + ["checkout", "--", "comb_spec_searcher"], check=True)
    dirty = subprocess.run(git + ["status", "--porcelain", "--untracked-files=no"], capture_output=True, text=True).stdout.strip()
    meta["worktree_clean_before"] = dirty == ""
    demo = os.path.join(src, "demo.py")
    try:
        rc0, out0 = run_demo(wt, demo)
        meta["demo_without_change"] = {"exit": rc0, "tail": out0[-300:]}
        p = subprocess.run(git + ["apply", os.path.join(src, "patch.diff")], capture_output=True, text=True)
        ok = p.returncode == 0
        meta["patch_applies"] = ok
        if not ok:
            meta["patch_error"] = p.stderr[-300:]
        else:
            env = dict(os.environ, PYTHONPATH=wt)
            t = subprocess.run(["timeout", "1200", PY, "-m", "pytest", "-q", "-p", "no:cacheprovider", "--timeout=900"], cwd=wt, env=env, capture_output=True, text=True)
            meta["tests_with_change"] = {"exit": t.returncode, "tail": t.stdout.strip().splitlines()[-1:] if t.stdout.strip() else []}
            rc1, out1 = run_demo(wt, demo)
            meta["demo_with_change"] = {"exit": rc1, "tail": out1[-300:]}
        meta["confirmed"] = bool(ok and meta["tests_with_change"]["exit"] == 0 and meta["demo_with_change"]["exit"] != 0 and rc0 == 0)
    finally:
        subprocess.run(git + ["checkout", "--", "comb_spec_searcher"])
    notes = os.path.join(dst, "notes.md")
    if os.path.exists(notes):
        meta["needs_to_manifest"] = open(notes).read()[:1500]
    meta["ran"] = [
        f"in the scratch worktree {wt} (git worktree of /repo HEAD, outside /repo and /verif): git apply patch.diff",
        f"cd {wt} && PYTHONPATH={wt} /venv/bin/python -m pytest -q -p no:cacheprovider --timeout=900",
        f"PYTHONPATH={wt} /venv/bin/python demo.py   (before and after applying the patch); git checkout -- comb_spec_searcher afterwards",
        "checks: tools/seeded.py check <name> (scratch copy of /repo HEAD with the patch, VERIF_REPO=<scratch>)",
    ]
    json.dump(meta, open(os.path.join(dst, "meta.json"), "w"), indent=1)
    print(name, "confirmed" if meta["confirmed"] else "NOT CONFIRMED", {k: meta.get(k) for k in ("patch_applies", "tests_with_change", "demo_with_change", "demo_without_change")})
    return meta["confirmed"]


def check(name, tier="quick", budget=None, props=None):
    dst = os.path.join(HERE, "seeded", name)
    meta = json.load(open(os.path.join(dst, "meta.json")))
    props = props or [meta["property"]]
    root = scratch()
    res = meta.setdefault("checks", {})
    try:
        ok, msg = apply(root, os.path.join(dst, "patch.diff"))
        assert ok, msg
        for prop in props:
            env = dict(os.environ, VERIF_REPO=root)
            cmd = ["timeout", "-s", "KILL", "3600", PY, os.path.join(HERE, "check.py"), prop, "--tier", tier]
            if budget:
                cmd += ["--budget", str(budget)]
            p = subprocess.run(cmd, env=env, capture_output=True, text=True)
            orac = [l.strip() for l in p.stdout.splitlines() if l.strip().startswith("oracle=")]
            last = p.stdout.strip().splitlines()[-1:] if p.stdout.strip() else []
            res[f"{prop}:{tier}"] = {"exit": p.returncode, "oracles": orac[:5], "summary": last}
            print(name, prop, tier, "DETECTED" if p.returncode == 1 else f"missed (exit {p.returncode})", orac[:2], flush=True)
            if p.returncode not in (0, 1):
                print(p.stdout[-1500:], p.stderr[-1500:])
    finally:
        shutil.rmtree(root, ignore_errors=True)
        subprocess.run(["git", "-C", HERE, "checkout", "--", "evidence"], capture_output=True)
        subprocess.run(["git", "-C", HERE, "clean", "-fdq", "replays"], capture_output=True)
    meta["detected"] = any(v["exit"] == 1 for v in res.values())
    json.dump(meta, open(os.path.join(dst, "meta.json"), "w"), indent=1)
    return meta["detected"]


if __name__ == "__main__":
    a = sys.argv[1:]
    if a[0] == "confirm":
        sys.exit(0 if confirm(a[1], a[2], a[3]) else 1)
    elif a[0] == "check":
        tier = a[a.index("--tier") + 1] if "--tier" in a else "quick"
        budget = a[a.index("--budget") + 1] if "--budget" in a else None
        props = a[a.index("--props") + 1].split(",") if "--props" in a else None
        sys.exit(0 if check(a[1], tier, budget, props) else 1)
